package main

func runBounded(name, repo, verifDir, prop string, thorough bool, seed int) (map[string]interface{}, []string) {
	return map[string]interface{}{"name": name, "status": "not implemented"}, nil
}

var _ = runBounded

func runOracle(name, repo, verifDir, prop string) (string, bool) { return "no oracle", false }
