package main

// Spec files: contracts for repo functions (in /repo/**/contracts_verif.go as
// //@ comment lines), assumed contracts for dependencies and property
// vocabulary (in /verif/specs/**/*.spec).

import (
	"fmt"
	"os"
	"path/filepath"
	"regexp"
	"sort"
	"strconv"
	"strings"
)

type Clause struct {
	Kind string // requires ensures invariant decreases assert
	Tags []string
	Src  string
	E    Expr
	File string
	Line int
}

func (c *Clause) Loc() string { return fmt.Sprintf("%s:%d", filepath.Base(c.File), c.Line) }

type ModClause struct {
	Nothing  bool
	Ghosts   []string // modifies ghost a, b
	Heaps    []string // modifies heap F.x.y (assumed functions: which heaps may change)
	Objs     []Expr   // modifies e1, e2 [when cond]: typed objects (a clause only concerns heaps its object's type lives in)
	When     Expr     // optional condition (evaluated in the pre-state)
	FieldsOf string   // modifies fields T of EXPR: all field heaps of struct type T, at object EXPR
	Var      string   // modifies r :: pred(r)
	Pred     Expr
	Tags     []string
	Src      string
}

type LoopSpec struct {
	Ordinal int
	Header  string
	Invs    []*Clause
	Decr    *Clause
	After   []*Clause // lemmas asserted (then assumed) where the loop exits
}

type AtCall struct {
	Pattern string // callee key, or suffix match
	Args    []string
	Asserts []*Clause
	Assumes []*Clause // behaviour assumptions about the environment, assumed right after the call returns
	// optional site filter "where ARG from CALLEE": only call sites whose argument
	// ARG is the result of a call to CALLEE
	FromArg    string
	FromCallee string
}

type SetClause struct {
	Ghost string
	E     Expr
	Src   string
	Tags  []string
}

// CutSpec: lemmas proved (then assumed) just before a statement identified by its source text
type CutSpec struct {
	Text   string
	Nth    int // 1-based occurrence among the statements the text matches; 0: the match must be unique
	Lemmas []*Clause
	Sets   []*SetClause // ghost assignments performed just before the statement (after the lemmas)
	Line   int
}

type RevealClause struct {
	Name string
	Tags []string
}

type FuncSpec struct {
	Reveals  []RevealClause // hidden predicates whose definition this function's proof may use
	Cuts     []*CutSpec
	Sets     []*SetClause // ghost assignments performed at return (definitional)
	Key      string
	Assumed  bool
	Params   []string // names for assumed functions (receiver first)
	Requires []*Clause
	Ensures  []*Clause
	Modifies []*ModClause
	Loops    map[int]*LoopSpec
	AtCalls  []*AtCall
	Decr     *Clause
	Pure     bool // assumed: results are a deterministic function of args (and nothing else)
	Closed   bool // every function called from the body must have a contract (an uncontracted external call is an obligation that fails)
	File     string
	Line     int
}

type FunDecl struct {
	Name   string
	Params []QVar
	Ret    string
}

type Define struct {
	Name   string
	Params []QVar
	Ret    string
	Body   Expr
	Src    string
	Opaque bool // elaborated as an uninterpreted function (per heap state) with a definitional axiom
	Stable bool // opaque, and inside a `modifies nothing` function always evaluated in the entry state (see DESIGN: stable predicates)
	Hidden bool // stable, and its definition is only available in functions whose contract says `reveal NAME`
}

type Axiom struct {
	Name string
	Tags []string
	E    Expr
	Src  string
}

type Ghost struct{ Name, Type string }

type Specs struct {
	Funcs   map[string]*FuncSpec
	Funs    map[string]*FunDecl
	FunList []*FunDecl
	Defines map[string]*Define
	Axioms  []*Axiom
	Ghosts  map[string]*Ghost
	Sorts   []string
	Files   []string
}

func NewSpecs() *Specs {
	return &Specs{Funcs: map[string]*FuncSpec{}, Funs: map[string]*FunDecl{}, Defines: map[string]*Define{}, Ghosts: map[string]*Ghost{}}
}

var trailingComment = regexp.MustCompile(`\s{2,}#.*$`)

var kwRe = regexp.MustCompile(`^(requires|ensures|invariant|decreases|assert|modifies|loop|at-call|func|assumed|fun|axiom|define|opaque|stable|hidden|reveal|ghost|sort|pure|closed|sets|after|before|lemma|assume)\b(\[[^\]]*\])?\s*(.*)$`)

type rawItem struct {
	kw, tags, rest string
	line           int
}

// LoadFile parses one spec file. If commentPrefix is non-empty, only lines
// starting with it (after whitespace) are considered (//@ in Go files).
func (s *Specs) LoadFile(path string, commentPrefix string) error {
	data, err := os.ReadFile(path)
	if err != nil {
		return err
	}
	s.Files = append(s.Files, path)
	var items []*rawItem
	for i, line := range strings.Split(string(data), "\n") {
		t := strings.TrimSpace(line)
		if commentPrefix != "" {
			if !strings.HasPrefix(t, commentPrefix) {
				continue
			}
			t = strings.TrimSpace(strings.TrimPrefix(t, commentPrefix))
		}
		if t == "" || strings.HasPrefix(t, "#") {
			continue
		}
		if i := trailingComment.FindStringIndex(t); i != nil {
			t = strings.TrimSpace(t[:i[0]])
		}
		if m := kwRe.FindStringSubmatch(t); m != nil {
			items = append(items, &rawItem{m[1], strings.Trim(m[2], "[]"), m[3], i + 1})
		} else {
			if len(items) == 0 {
				return fmt.Errorf("%s:%d: continuation line without item", path, i+1)
			}
			// strip trailing comment
			items[len(items)-1].rest += " " + t
		}
	}
	var cur *FuncSpec
	var curLoop *LoopSpec
	var curAt *AtCall
	var curCut *CutSpec
	perr := func(it *rawItem, f string, a ...interface{}) error {
		return fmt.Errorf("%s:%d: %s", path, it.line, fmt.Sprintf(f, a...))
	}
	splitTags := func(t string) []string {
		var out []string
		for _, x := range strings.Split(t, ",") {
			x = strings.TrimSpace(x)
			if x != "" {
				out = append(out, x)
			}
		}
		return out
	}
	for _, it := range items {
		rest := strings.TrimSpace(it.rest)
		switch it.kw {
		case "sort":
			s.Sorts = append(s.Sorts, rest)
			cur = nil
		case "ghost":
			f := strings.SplitN(rest, " ", 2)
			if len(f) != 2 {
				return perr(it, "ghost NAME TYPE")
			}
			s.Ghosts[f[0]] = &Ghost{f[0], strings.TrimSpace(f[1])}
			cur = nil
		case "fun":
			fd, err := parseFunSig(rest)
			if err != nil {
				return perr(it, "%v", err)
			}
			s.Funs[fd.Name] = fd
			s.FunList = append(s.FunList, fd)
			cur = nil
		case "define", "opaque", "stable", "hidden":
			eq := strings.Index(rest, " = ")
			if eq < 0 {
				return perr(it, "define f(args) T = body")
			}
			fd, err := parseFunSig(rest[:eq])
			if err != nil {
				return perr(it, "%v", err)
			}
			body, err := ParseExpr(rest[eq+3:])
			if err != nil {
				return perr(it, "%v", err)
			}
			s.Defines[fd.Name] = &Define{fd.Name, fd.Params, fd.Ret, body, rest, it.kw != "define", it.kw == "stable" || it.kw == "hidden", it.kw == "hidden"}
			cur = nil
		case "axiom":
			c := strings.Index(rest, ":")
			if c < 0 {
				return perr(it, "axiom name: expr")
			}
			e, err := ParseExpr(rest[c+1:])
			if err != nil {
				return perr(it, "%v", err)
			}
			s.Axioms = append(s.Axioms, &Axiom{strings.TrimSpace(rest[:c]), splitTags(it.tags), e, rest})
			cur = nil
		case "func", "assumed":
			curCut = nil
			assumed := it.kw == "assumed"
			if assumed {
				if !strings.HasPrefix(rest, "func ") {
					return perr(it, "assumed func KEY(params)")
				}
				rest = strings.TrimSpace(strings.TrimPrefix(rest, "func "))
			}
			key := rest
			var params []string
			// trailing (a, b) parameter-name list: last parenthesised group
			if strings.HasSuffix(rest, ")") {
				o := strings.LastIndex(rest, "(")
				inner := rest[o+1 : len(rest)-1]
				if !strings.ContainsAny(inner, "*.[") {
					key = strings.TrimSpace(rest[:o])
					for _, p := range strings.Split(inner, ",") {
						p = strings.TrimSpace(p)
						if p != "" {
							params = append(params, p)
						}
					}
				}
			}
			if old, ok := s.Funcs[key]; ok {
				// allow several blocks for one function (e.g. per-property files): merge
				cur = old
				if len(params) > 0 && len(cur.Params) == 0 {
					cur.Params = params
				}
			} else {
				cur = &FuncSpec{Key: key, Assumed: assumed, Params: params, Loops: map[int]*LoopSpec{}, File: path, Line: it.line}
				s.Funcs[key] = cur
			}
			curLoop, curAt = nil, nil
		case "reveal":
			if cur == nil {
				return perr(it, "reveal outside func")
			}
			for _, n := range strings.Split(rest, ",") {
				cur.Reveals = append(cur.Reveals, RevealClause{strings.TrimSpace(n), splitTags(it.tags)})
			}
		case "before":
			if cur == nil {
				return perr(it, "before outside func")
			}
			nth := 0
			rest = strings.TrimSpace(rest)
			if strings.HasPrefix(rest, "#") {
				sp := strings.IndexAny(rest, " \t")
				if sp < 0 {
					return perr(it, "before#N \"statement text\"")
				}
				n, err := strconv.Atoi(rest[1:sp])
				if err != nil || n < 1 {
					return perr(it, "before#N: N must be a positive integer")
				}
				nth = n
				rest = rest[sp:]
			}
			curCut = &CutSpec{Text: strings.Trim(strings.TrimSpace(rest), `"`), Nth: nth, Line: it.line}
			cur.Cuts = append(cur.Cuts, curCut)
			curLoop, curAt = nil, nil
		case "lemma":
			if cur == nil || curCut == nil {
				return perr(it, "lemma outside before")
			}
			ex, err := ParseExpr(rest)
			if err != nil {
				return perr(it, "%v", err)
			}
			curCut.Lemmas = append(curCut.Lemmas, &Clause{Kind: "lemma", Tags: splitTags(it.tags), Src: rest, E: ex, File: path, Line: it.line})
		case "pure":
			if cur == nil {
				return perr(it, "pure outside func")
			}
			cur.Pure = true
		case "closed":
			if cur == nil {
				return perr(it, "closed outside func")
			}
			cur.Closed = true
		case "sets":
			if cur == nil {
				return perr(it, "sets outside func")
			}
			eq := strings.Index(rest, "=")
			if eq < 0 {
				return perr(it, "sets GHOST = expr")
			}
			ex, err := ParseExpr(rest[eq+1:])
			if err != nil {
				return perr(it, "%v", err)
			}
			if curCut != nil {
				curCut.Sets = append(curCut.Sets, &SetClause{strings.TrimSpace(rest[:eq]), ex, rest, splitTags(it.tags)})
			} else {
				cur.Sets = append(cur.Sets, &SetClause{strings.TrimSpace(rest[:eq]), ex, rest, splitTags(it.tags)})
			}
		case "loop":
			if cur == nil {
				return perr(it, "loop outside func")
			}
			f := strings.SplitN(rest, " ", 2)
			n, err := strconv.Atoi(f[0])
			if err != nil {
				return perr(it, "loop ORDINAL [\"header text\"]")
			}
			hdr := ""
			if len(f) == 2 {
				hdr = strings.Trim(strings.TrimSpace(f[1]), `"`)
			}
			if l, ok := cur.Loops[n]; ok {
				curLoop = l
			} else {
				curLoop = &LoopSpec{Ordinal: n, Header: hdr}
				cur.Loops[n] = curLoop
			}
			curAt, curCut = nil, nil
		case "at-call":
			if cur == nil {
				return perr(it, "at-call outside func")
			}
			pat := strings.TrimSuffix(strings.TrimSpace(rest), ":")
			fromArg, fromCallee := "", ""
			if i := strings.Index(pat, " where "); i >= 0 {
				f := strings.Fields(pat[i+7:])
				if len(f) != 3 || f[1] != "from" {
					return perr(it, "at-call KEY(args) where ARG from CALLEE")
				}
				fromArg, fromCallee = f[0], f[2]
				pat = strings.TrimSpace(pat[:i])
			}
			var args []string
			if strings.HasSuffix(pat, ")") {
				o := strings.LastIndex(pat, "(")
				inner := pat[o+1 : len(pat)-1]
				if !strings.ContainsAny(inner, "*.[") {
					for _, p := range strings.Split(inner, ",") {
						p = strings.TrimSpace(p)
						if p != "" {
							args = append(args, p)
						}
					}
					pat = strings.TrimSpace(pat[:o])
				}
			}
			curAt = &AtCall{Pattern: pat, Args: args, FromArg: fromArg, FromCallee: fromCallee}
			cur.AtCalls = append(cur.AtCalls, curAt)
			curLoop, curCut = nil, nil
		case "modifies":
			if cur == nil {
				return perr(it, "modifies outside func")
			}
			mc := &ModClause{Tags: splitTags(it.tags), Src: rest}
			switch {
			case rest == "nothing":
				mc.Nothing = true
			case strings.HasPrefix(rest, "ghost "):
				for _, g := range strings.Split(rest[6:], ",") {
					mc.Ghosts = append(mc.Ghosts, strings.TrimSpace(g))
				}
			case strings.HasPrefix(rest, "fields "):
				// modifies fields pkg.T of expr
				f := strings.SplitN(rest[7:], " of ", 2)
				if len(f) != 2 {
					return perr(it, "modifies fields TYPE of EXPR")
				}
				mc.FieldsOf = strings.TrimSpace(f[0])
				mc.Var = "$r"
				e, err := ParseExpr("$r == (" + f[1] + ")")
				if err != nil {
					return perr(it, "%v", err)
				}
				mc.Pred = e
			case strings.HasPrefix(rest, "heap "):
				for _, g := range strings.Split(rest[5:], ",") {
					mc.Heaps = append(mc.Heaps, strings.TrimSpace(g))
				}
			default:
				c := strings.Index(rest, "::")
				if c < 0 {
					// modifies e1, e2 [when cond]
					objs := rest
					if i := strings.Index(rest, " when "); i >= 0 {
						objs = rest[:i]
						we, err := ParseExpr(rest[i+6:])
						if err != nil {
							return perr(it, "%v", err)
						}
						mc.When = we
					}
					for _, p := range splitTop(objs) {
						oe, err := ParseExpr(p)
						if err != nil {
							return perr(it, "%v", err)
						}
						mc.Objs = append(mc.Objs, oe)
					}
				} else {
					mc.Var = strings.TrimSpace(rest[:c])
					e, err := ParseExpr(rest[c+2:])
					if err != nil {
						return perr(it, "%v", err)
					}
					mc.Pred = e
				}
			}
			cur.Modifies = append(cur.Modifies, mc)
		case "requires", "ensures", "invariant", "decreases", "assert", "after", "assume":
			if cur == nil {
				return perr(it, "%s outside func", it.kw)
			}
			e, err := ParseExpr(rest)
			if err != nil {
				return perr(it, "%v", err)
			}
			cl := &Clause{Kind: it.kw, Tags: splitTags(it.tags), Src: rest, E: e, File: path, Line: it.line}
			switch it.kw {
			case "requires":
				cur.Requires = append(cur.Requires, cl)
			case "ensures":
				cur.Ensures = append(cur.Ensures, cl)
			case "invariant":
				if curLoop == nil {
					return perr(it, "invariant outside loop")
				}
				curLoop.Invs = append(curLoop.Invs, cl)
			case "after":
				if curLoop == nil {
					return perr(it, "after outside loop")
				}
				curLoop.After = append(curLoop.After, cl)
			case "decreases":
				if curLoop != nil {
					curLoop.Decr = cl
				} else {
					cur.Decr = cl
				}
			case "assert":
				if curAt == nil {
					return perr(it, "assert outside at-call")
				}
				curAt.Asserts = append(curAt.Asserts, cl)
			case "assume":
				if curAt == nil {
					return perr(it, "assume outside at-call")
				}
				if _, behs := splitTagKinds(cl.Tags); len(behs) == 0 {
					return perr(it, "assume must carry a behaviour tag (it restricts the environment)")
				}
				curAt.Assumes = append(curAt.Assumes, cl)
			}
		}
	}
	return nil
}

// splitTop splits on commas not nested in brackets/parens.
func splitTop(s string) []string {
	var out []string
	depth := 0
	start := 0
	for i, c := range s {
		switch c {
		case '(', '[':
			depth++
		case ')', ']':
			depth--
		case ',':
			if depth == 0 {
				out = append(out, strings.TrimSpace(s[start:i]))
				start = i + 1
			}
		}
	}
	out = append(out, strings.TrimSpace(s[start:]))
	return out
}

// parseFunSig parses  name(a T, b U) R
func parseFunSig(s string) (*FunDecl, error) {
	s = strings.TrimSpace(s)
	o := strings.Index(s, "(")
	if o < 0 {
		return nil, fmt.Errorf("bad signature %q", s)
	}
	name := strings.TrimSpace(s[:o])
	depth := 0
	c := -1
	for i := o; i < len(s); i++ {
		if s[i] == '(' {
			depth++
		}
		if s[i] == ')' {
			depth--
			if depth == 0 {
				c = i
				break
			}
		}
	}
	if c < 0 {
		return nil, fmt.Errorf("bad signature %q", s)
	}
	fd := &FunDecl{Name: name, Ret: strings.TrimSpace(s[c+1:])}
	inner := strings.TrimSpace(s[o+1 : c])
	if inner != "" {
		for _, p := range splitTop(inner) {
			f := strings.SplitN(strings.TrimSpace(p), " ", 2)
			if len(f) != 2 {
				return nil, fmt.Errorf("bad parameter %q in %q", p, s)
			}
			fd.Params = append(fd.Params, QVar{f[0], strings.TrimSpace(f[1])})
		}
	}
	if fd.Ret == "" {
		fd.Ret = "bool"
	}
	return fd, nil
}

// hasTag / tag helpers --------------------------------------------------

var propRe = regexp.MustCompile(`^C[0-9]{2,3}$`)

func splitTagKinds(tags []string) (props, behs []string) {
	for _, t := range tags {
		if propRe.MatchString(t) {
			props = append(props, t)
		} else {
			behs = append(behs, t)
		}
	}
	return
}

// Pass selects which clauses are active.
type Pass struct {
	Prop string // property id ("" = only untagged)
	Beh  string // behaviour ("" = default)
}

func (p Pass) Active(tags []string) bool {
	props, behs := splitTagKinds(tags)
	if len(behs) > 0 {
		ok := false
		for _, b := range behs {
			if b == p.Beh {
				ok = true
			}
		}
		if !ok {
			return false
		}
	}
	if len(props) > 0 {
		for _, q := range props {
			if q == p.Prop {
				return true
			}
		}
		return false
	}
	return true
}

func sortedKeys[V any](m map[string]V) []string {
	var ks []string
	for k := range m {
		ks = append(ks, k)
	}
	sort.Strings(ks)
	return ks
}
