package main

// C18 tier B: a sound over-approximation of the language a loop-free CSS value
// handler accepts, computed compositionally from its SSA with transfer rules
// that are the contracts of the helpers it calls:
//
//	R.MatchString(value)                         -> L(R)           (MatchString semantics)
//	in([]string{value}, lits)                    -> lit_1 | ... | lit_n
//	in(splitValues(value), lits)                 -> P ("," P)*,  P = ws* lower^-1(lit) ws*
//	f(value), f a handler                        -> L(f)           (its summary, not its body)
//	recursiveCheck(strings.Split(value," "), fs) -> U (" " U)*,  U = L(f_1) | ... | L(f_n)
//	anything else                                -> may be true (no constraint)
//
// A path that returns true contributes the intersection of the languages of
// the atoms it took positively; a handler's language is the union over paths.
// Dropped conjuncts only enlarge the language, so L(h) ⊇ {v | h(v)}. The
// obligation is  L(h) ∩ Hostile = ∅  (one str.in_re query).

import (
	"fmt"
	"go/constant"
	"go/token"
	"go/types"
	"regexp"
	"sort"
	"strings"
	"unicode"

	"golang.org/x/tools/go/ssa"
)

type absKind int

const (
	aUnknown absKind = iota
	aValue           // the handler's parameter
	aLits            // []string{"a","b"}
	aSingle          // []string{value}
	aSplitV          // splitValues(value)
	aSplitSp         // strings.Split(value, sep) with a constant separator
	aFuncs           // []func(string) bool{...}
	aBool            // a boolean with a language (true only for values in lang)
	aTrue
	aFalse
	aLenSplit // len(strings.Split(value, sep))
	aElem     // strings.Split(value, sep)[idx] with a constant idx
	aSingleE  // []string{strings.Split(value, sep)[idx]}
	aLenCond  // len(strings.Split(value, sep)) OP k
	aPosBool  // a boolean that can only be true when element idx of the split lies in lang
)

type absVal struct {
	kind  absKind
	lits  []string
	funcs []*ssa.Function
	sep   string // for aSplitSp
	lang  string // for aBool: values for which it may be true
	neg   bool   // aBool negated (then it gives no constraint on either branch... positive info is in the else branch)
	idx   int    // aElem, aSingleE, aPosBool
	op    token.Token // aLenCond
	k     int    // aLenCond
}

type tierB struct {
	w             *World
	regexps       map[string]RegexpLit
	memo          map[*ssa.Function]string
	stack         map[*ssa.Function]bool
	notes         map[*ssa.Function][]string
	lowerPre      map[rune][]rune
	spaces        []rune
	forb          string // RegLan of the forbidden language
	usedJoinLemma bool
}

func newTierB(w *World, regexps map[string]RegexpLit) *tierB {
	t := &tierB{w: w, regexps: regexps, memo: map[*ssa.Function]string{}, stack: map[*ssa.Function]bool{}, notes: map[*ssa.Function][]string{}, lowerPre: map[rune][]rune{}}
	for r := rune(0); r <= maxSMTChar; r++ {
		if l := unicode.ToLower(r); l != r && l < 128 {
			t.lowerPre[l] = append(t.lowerPre[l], r)
		}
		if unicode.IsSpace(r) {
			t.spaces = append(t.spaces, r)
		}
	}
	return t
}

func (t *tierB) wsStar() string {
	var alts []string
	for _, r := range t.spaces {
		alts = append(alts, reRange(r, r))
	}
	return "(re.* " + reUnion(alts) + ")"
}

// lowerInv: strings x with strings.ToLower(x) == lit (lit is lower-case ASCII in this code base;
// for other runes the rune itself and its simple-fold orbit are admitted)
func (t *tierB) lowerInv(lit string) string {
	var parts []string
	for _, r := range lit {
		alts := []string{reRange(r, r)}
		for _, p := range t.lowerPre[r] {
			alts = append(alts, reRange(p, p))
		}
		for f := unicode.SimpleFold(r); f != r; f = unicode.SimpleFold(f) {
			if unicode.ToLower(f) == r {
				alts = append(alts, reRange(f, f))
			}
		}
		parts = append(parts, reUnion(alts))
	}
	return reConcat(parts)
}

// globalLits: a package-level []string assigned once, in the package initialiser, from a literal
func (t *tierB) globalLits(g *ssa.Global) ([]string, bool) {
	if !t.w.initNonNil[g] {
		return nil, false
	}
	init := g.Pkg.Func("init")
	if init == nil {
		return nil, false
	}
	for _, b := range init.Blocks {
		for _, in := range b.Instrs {
			st, ok := in.(*ssa.Store)
			if !ok || st.Addr != ssa.Value(g) {
				continue
			}
			elems, ok := sliceLitElems(st.Val)
			if !ok {
				return nil, false
			}
			var lits []string
			for _, e := range elems {
				c, ok := e.(*ssa.Const)
				if !ok || c.Value == nil || c.Value.Kind() != constant.String {
					return nil, false
				}
				lits = append(lits, constant.StringVal(c.Value))
			}
			return lits, true
		}
	}
	return nil, false
}

func isHandlerSig(fn *ssa.Function) bool {
	sig := fn.Signature
	if sig.Recv() != nil || sig.Params().Len() != 1 || sig.Results().Len() != 1 {
		return false
	}
	pb, ok1 := sig.Params().At(0).Type().Underlying().(*types.Basic)
	rb, ok2 := sig.Results().At(0).Type().Underlying().(*types.Basic)
	return ok1 && ok2 && pb.Kind() == types.String && rb.Kind() == types.Bool
}

// sliceLit resolves  slice(new [N]T (slicelit))[:]  to the stored element values
func sliceLitElems(v ssa.Value) ([]ssa.Value, bool) {
	sl, ok := v.(*ssa.Slice)
	if !ok || sl.Low != nil || sl.High != nil {
		return nil, false
	}
	al, ok := sl.X.(*ssa.Alloc)
	if !ok {
		return nil, false
	}
	at, ok := derefType(al.Type()).Underlying().(*types.Array)
	if !ok {
		return nil, false
	}
	elems := make([]ssa.Value, at.Len())
	for _, r := range *al.Referrers() {
		ia, ok := r.(*ssa.IndexAddr)
		if !ok {
			if _, isSl := r.(*ssa.Slice); isSl {
				continue
			}
			if _, isDbg := r.(*ssa.DebugRef); isDbg {
				continue
			}
			return nil, false
		}
		ic, ok := ia.Index.(*ssa.Const)
		if !ok {
			return nil, false
		}
		for _, rr := range *ia.Referrers() {
			if st, ok := rr.(*ssa.Store); ok && st.Addr == ia {
				elems[ic.Int64()] = st.Val
			}
		}
	}
	for _, e := range elems {
		if e == nil {
			return nil, false
		}
	}
	return elems, true
}

func (t *tierB) abs(fn *ssa.Function, v ssa.Value) absVal {
	switch x := v.(type) {
	case *ssa.Parameter:
		if x == fn.Params[0] {
			return absVal{kind: aValue}
		}
	case *ssa.Const:
		if b, ok := x.Type().Underlying().(*types.Basic); ok && b.Kind() == types.Bool || x.Value != nil && x.Value.Kind() == constant.Bool {
			if constant.BoolVal(x.Value) {
				return absVal{kind: aTrue}
			}
			return absVal{kind: aFalse}
		}
	case *ssa.Slice:
		if elems, ok := sliceLitElems(x); ok {
			allStr, allFn := true, true
			var lits []string
			var fns []*ssa.Function
			single := false
			for _, e := range elems {
				switch ev := e.(type) {
				case *ssa.Const:
					if ev.Value != nil && ev.Value.Kind() == constant.String {
						lits = append(lits, constant.StringVal(ev.Value))
						allFn = false
						continue
					}
				case *ssa.Function:
					fns = append(fns, ev)
					allStr = false
					continue
				case *ssa.Parameter:
					if len(elems) == 1 && ev == fn.Params[0] {
						single = true
						continue
					}
				}
				if len(elems) == 1 {
					if a := t.abs(fn, e); a.kind == aElem {
						return absVal{kind: aSingleE, sep: a.sep, idx: a.idx}
					}
				}
				allStr, allFn = false, false
			}
			switch {
			case single:
				return absVal{kind: aSingle}
			case allStr && len(lits) == len(elems):
				return absVal{kind: aLits, lits: lits}
			case allFn && len(fns) == len(elems):
				return absVal{kind: aFuncs, funcs: fns}
			}
		}
	case *ssa.BinOp:
		l, r := t.abs(fn, x.X), t.abs(fn, x.Y)
		if c, ok := x.Y.(*ssa.Const); ok && l.kind == aLenSplit && c.Value != nil && c.Value.Kind() == constant.Int {
			k, _ := constant.Int64Val(c.Value)
			switch x.Op {
			case token.GTR, token.GEQ, token.LSS, token.LEQ, token.EQL, token.NEQ:
				return absVal{kind: aLenCond, sep: l.sep, op: x.Op, k: int(k)}
			}
		}
		_ = r
	case *ssa.UnOp:
		if x.Op == token.MUL {
			if ia, ok := x.X.(*ssa.IndexAddr); ok {
				if c, ok := ia.Index.(*ssa.Const); ok && c.Value != nil {
					if a := t.abs(fn, ia.X); a.kind == aSplitSp {
						k, _ := constant.Int64Val(c.Value)
						return absVal{kind: aElem, sep: a.sep, idx: int(k)}
					}
				}
			}
			if g, ok := x.X.(*ssa.Global); ok {
				if lits, ok := t.globalLits(g); ok {
					return absVal{kind: aLits, lits: lits}
				}
			}
		}
		if x.Op == token.NOT {
			a := t.abs(fn, x.X)
			switch a.kind {
			case aTrue:
				return absVal{kind: aFalse}
			case aFalse:
				return absVal{kind: aTrue}
			case aBool, aPosBool, aLenCond:
				a.neg = !a.neg
				return a
			}
		}
	case *ssa.Call:
		c := x.Common()
		if b, ok := c.Value.(*ssa.Builtin); ok && b.Name() == "len" && len(c.Args) == 1 {
			if a := t.abs(fn, c.Args[0]); a.kind == aSplitSp {
				return absVal{kind: aLenSplit, sep: a.sep}
			}
			return absVal{}
		}
		callee := c.StaticCallee()
		if callee == nil {
			return absVal{}
		}
		key := funcKey(callee)
		switch key {
		case "css.splitValues":
			if t.abs(fn, c.Args[0]).kind == aValue {
				return absVal{kind: aSplitV}
			}
		case "strings.Split":
			if t.abs(fn, c.Args[0]).kind == aValue {
				if sc, ok := c.Args[1].(*ssa.Const); ok && sc.Value != nil && constant.StringVal(sc.Value) != "" {
					return absVal{kind: aSplitSp, sep: constant.StringVal(sc.Value)}
				}
			}
		case "css.in":
			a0, a1 := t.abs(fn, c.Args[0]), t.abs(fn, c.Args[1])
			if a1.kind == aLits {
				switch a0.kind {
				case aSingleE:
					var alts []string
					for _, l := range a1.lits {
						alts = append(alts, "(str.to_re "+smtStr(l)+")")
					}
					return absVal{kind: aPosBool, sep: a0.sep, idx: a0.idx, lang: reUnion(alts)}
				case aSingle:
					var alts []string
					for _, l := range a1.lits {
						alts = append(alts, "(str.to_re "+smtStr(l)+")")
					}
					return absVal{kind: aBool, lang: reUnion(alts)}
				case aSplitSp:
					// every element of strings.Split(value, sep) equals some literal: lit (sep lit)*
					var alts []string
					for _, l := range a1.lits {
						alts = append(alts, "(str.to_re "+smtStr(l)+")")
					}
					u := reUnion(alts)
					return absVal{kind: aBool, lang: fmt.Sprintf("(re.++ %s (re.* (re.++ (str.to_re %s) %s)))", u, smtStr(a0.sep), u)}
				case aSplitV:
					if len(a1.lits) > 30 {
						// large keyword table (colour names): a coarser, still sound over-approximation
						// keeps the query small: any string over the alphabet of the keywords (with their
						// ToLower pre-images), whitespace and the comma
						set := map[rune]bool{',': true}
						for _, l := range a1.lits {
							for _, r := range l {
								set[r] = true
								for _, p := range t.lowerPre[r] {
									set[p] = true
								}
							}
						}
						for _, r := range t.spaces {
							set[r] = true
						}
						var rs []rune
						for r := range set {
							rs = append(rs, r)
						}
						sort.Slice(rs, func(i, j int) bool { return rs[i] < rs[j] })
						var alts []string
						for _, r := range rs {
							alts = append(alts, reRange(r, r))
						}
						return absVal{kind: aBool, lang: "(re.* " + reUnion(alts) + ")"}
					}
					var alts []string
					for _, l := range a1.lits {
						alts = append(alts, t.lowerInv(l))
					}
					p := reConcat([]string{t.wsStar(), reUnion(alts), t.wsStar()})
					return absVal{kind: aBool, lang: fmt.Sprintf("(re.++ %s (re.* (re.++ (str.to_re \",\") %s)))", p, p)}
				}
			}
		case "(*regexp.Regexp).MatchString":
			if ea := t.abs(fn, c.Args[1]); ea.kind == aElem {
				if ld, ok := c.Args[0].(*ssa.UnOp); ok && ld.Op == token.MUL {
					if g, ok := ld.X.(*ssa.Global); ok {
						if lit, ok := t.regexps[g.Pkg.Pkg.Name()+"."+g.Name()]; ok {
							if l, err := MatchLang(lit.Pattern); err == nil {
								return absVal{kind: aPosBool, sep: ea.sep, idx: ea.idx, lang: l}
							}
						}
					}
				}
			}
			if t.abs(fn, c.Args[1]).kind == aValue {
				if ld, ok := c.Args[0].(*ssa.UnOp); ok && ld.Op == token.MUL {
					if g, ok := ld.X.(*ssa.Global); ok {
						if lit, ok := t.regexps[g.Pkg.Pkg.Name()+"."+g.Name()]; ok {
							if l, err := MatchLang(lit.Pattern); err == nil {
								return absVal{kind: aBool, lang: l}
							}
						}
					}
				}
			}
		case "css.recursiveCheck":
			a0, a1 := t.abs(fn, c.Args[0]), t.abs(fn, c.Args[1])
			if a0.kind == aSplitSp && a0.sep == " " && a1.kind == aFuncs {
				var alts []string
				for _, f := range a1.funcs {
					fl := t.lang(f)
					if fl == "re.all" {
						return absVal{}
					}
					alts = append(alts, fl)
				}
				_ = alts
				// Token abstraction. Every f_i is itself a handler with its own obligation
				// L(f_i) ∩ Forbidden = ∅, i.e. L(f_i) ⊆ NH (the non-forbidden strings). A value accepted
				// here is a space-join of strings each accepted by some f_i, hence lies in NH (" " NH)*,
				// which the join lemma (its own obligation, regl/lemma/space-join) shows disjoint from Forbidden.
				t.usedJoinLemma = true
				nh := "(re.comp " + t.forb + ")"
				return absVal{kind: aBool, lang: fmt.Sprintf("(re.++ %s (re.* (re.++ (str.to_re \" \") %s)))", nh, nh)}
			}
		default:
			if isHandlerSig(callee) && callee.Blocks != nil && t.w.repoPkgs[callee.Pkg.Pkg] {
				if ea := t.abs(fn, c.Args[0]); ea.kind == aElem {
					if cl := t.lang(callee); cl != "re.all" {
						return absVal{kind: aPosBool, sep: ea.sep, idx: ea.idx, lang: cl}
					}
				}
			}
			if isHandlerSig(callee) && callee.Blocks != nil && t.w.repoPkgs[callee.Pkg.Pkg] && t.abs(fn, c.Args[0]).kind == aValue {
				if cl := t.lang(callee); cl != "re.all" {
					return absVal{kind: aBool, lang: cl}
				}
			}
		}
	}
	return absVal{}
}

// lang: over-approximation of {v | fn(v) == true} as a RegLan term
func (t *tierB) lang(fn *ssa.Function) string {
	if l, ok := t.memo[fn]; ok {
		return l
	}
	if t.stack[fn] {
		t.notes[fn] = append(t.notes[fn], "recursive handler reference: no constraint")
		return "re.all"
	}
	t.stack[fn] = true
	defer delete(t.stack, fn)
	for _, b := range fn.Blocks {
		for _, s := range b.Succs {
			if s.Dominates(b) {
				t.notes[fn] = append(t.notes[fn], "contains a loop: outside the recogniser fragment")
				t.memo[fn] = "re.all"
				return "re.all"
			}
		}
	}
	var contribs []string
	unconstrained := false
	type pathSt struct {
		cons   []string
		split  bool
		sep    string
		lo, hi int // bounds on len(strings.Split(value, sep)); hi < 0: unbounded
		pos    map[int][]string
	}
	clone := func(p pathSt) pathSt {
		q := p
		q.cons = append([]string{}, p.cons...)
		q.pos = map[int][]string{}
		for k, v := range p.pos {
			q.pos[k] = append([]string{}, v...)
		}
		return q
	}
	negOp := map[token.Token]token.Token{token.GTR: token.LEQ, token.GEQ: token.LSS, token.LSS: token.GEQ, token.LEQ: token.GTR, token.EQL: token.NEQ, token.NEQ: token.EQL}
	// apply the information that boolean a has value `want` on this path; false if the path is infeasible
	var apply func(p *pathSt, a absVal, want bool) bool
	apply = func(p *pathSt, a absVal, want bool) bool {
		if a.neg {
			want = !want
		}
		useSplit := func(sep string) bool {
			if p.split && p.sep != sep {
				return false
			}
			if !p.split {
				p.split, p.sep, p.lo, p.hi = true, sep, 1, -1
			}
			return true
		}
		switch a.kind {
		case aBool:
			if want {
				p.cons = append(p.cons, a.lang)
			}
		case aPosBool:
			if want && useSplit(a.sep) {
				p.pos[a.idx] = append(p.pos[a.idx], a.lang)
				if p.lo < a.idx+1 {
					p.lo = a.idx + 1
				}
			}
		case aLenCond:
			if !useSplit(a.sep) {
				return true
			}
			op := a.op
			if !want {
				op = negOp[op]
			}
			switch op {
			case token.GTR:
				if p.lo < a.k+1 {
					p.lo = a.k + 1
				}
			case token.GEQ:
				if p.lo < a.k {
					p.lo = a.k
				}
			case token.LSS:
				if p.hi < 0 || p.hi > a.k-1 {
					p.hi = a.k - 1
				}
			case token.LEQ:
				if p.hi < 0 || p.hi > a.k {
					p.hi = a.k
				}
			case token.EQL:
				if p.lo < a.k {
					p.lo = a.k
				}
				if p.hi < 0 || p.hi > a.k {
					p.hi = a.k
				}
			}
		}
		return !(p.split && p.hi >= 0 && p.lo > p.hi)
	}
	nsep := func(sep string) string {
		if len([]rune(sep)) == 1 {
			return "(re.* (re.diff re.allchar (str.to_re " + smtStr(sep) + ")))"
		}
		return "(re.comp (re.++ re.all (str.to_re " + smtStr(sep) + ") re.all))"
	}
	// language of the values whose split satisfies the path's positional constraints
	splitLang := func(p pathSt) string {
		elem := func(i int) string {
			ls := p.pos[i]
			switch len(ls) {
			case 0:
				return nsep(p.sep)
			case 1:
				return ls[0]
			}
			return "(re.inter " + strings.Join(ls, " ") + ")"
		}
		seq := func(n int) string {
			var parts []string
			for i := 0; i < n; i++ {
				if i > 0 {
					parts = append(parts, "(str.to_re "+smtStr(p.sep)+")")
				}
				parts = append(parts, elem(i))
			}
			return reConcat(parts)
		}
		maxIdx := -1
		for k := range p.pos {
			if k > maxIdx {
				maxIdx = k
			}
		}
		if p.hi >= 0 && p.hi <= 8 {
			var alts []string
			for n := p.lo; n <= p.hi; n++ {
				alts = append(alts, seq(n))
			}
			return reUnion(alts)
		}
		n := p.lo
		if n < maxIdx+1 {
			n = maxIdx + 1
		}
		return fmt.Sprintf("(re.++ %s (re.* (re.++ (str.to_re %s) %s)))", seq(n), smtStr(p.sep), nsep(p.sep))
	}
	var walk func(b, from *ssa.BasicBlock, st pathSt, depth int)
	walk = func(b, from *ssa.BasicBlock, st pathSt, depth int) {
		if depth > 200 {
			unconstrained = true
			return
		}
		// value of a boolean on this path (phi resolved through `from`)
		eval := func(v ssa.Value) absVal {
			if p, ok := v.(*ssa.Phi); ok && p.Block() == b && from != nil {
				for i, pr := range b.Preds {
					if pr == from {
						return t.abs(fn, p.Edges[i])
					}
				}
			}
			return t.abs(fn, v)
		}
		last := b.Instrs[len(b.Instrs)-1]
		switch x := last.(type) {
		case *ssa.Return:
			r := eval(x.Results[0])
			if r.kind == aFalse {
				return
			}
			p := clone(st)
			if !apply(&p, r, true) {
				return
			}
			cs := p.cons
			if p.split && len(p.pos) > 0 {
				cs = append(cs, splitLang(p))
			}
			if len(cs) == 0 {
				unconstrained = true
				return
			}
			if len(cs) == 1 {
				contribs = append(contribs, cs[0])
			} else {
				contribs = append(contribs, "(re.inter "+strings.Join(cs, " ")+")")
			}
		case *ssa.If:
			c := eval(x.Cond)
			switch c.kind {
			case aTrue:
				walk(b.Succs[0], b, st, depth+1)
				return
			case aFalse:
				walk(b.Succs[1], b, st, depth+1)
				return
			}
			thenSt, elseSt := clone(st), clone(st)
			if apply(&thenSt, c, true) {
				walk(b.Succs[0], b, thenSt, depth+1)
			}
			if apply(&elseSt, c, false) {
				walk(b.Succs[1], b, elseSt, depth+1)
			}
		case *ssa.Jump:
			walk(b.Succs[0], b, st, depth+1)
		default:
			unconstrained = true
		}
	}
	walk(fn.Blocks[0], nil, pathSt{pos: map[int][]string{}}, 0)
	l := reUnion(contribs)
	if unconstrained {
		t.notes[fn] = append(t.notes[fn], "some accepting path carries no recognised constraint on the value: outside the recogniser fragment")
		l = "re.all"
	}
	t.memo[fn] = l
	return l
}

// tierBJob: one obligation per handler of package css
func tierBJob(repo, verifDir, prop string, forbidden string) ([]*Obligation, []string, []string) {
	specDir := envOr("VERIF_SPECS", "/verif/specs")
	w, err := LoadWorld(repo, []string{specDir})
	if err != nil {
		return nil, []string{err.Error()}, nil
	}
	lits, err := extractRegexps(repo)
	if err != nil {
		return nil, []string{err.Error()}, nil
	}
	forb, err := MatchLang(forbidden)
	if err != nil {
		return nil, []string{"forbidden language: " + err.Error()}, nil
	}
	forbRe := regexp.MustCompile(forbidden)
	t := newTierB(w, lits)
	t.forb = forb
	var keys []string
	for k, fn := range w.funcs {
		if fn.Pkg != nil && fn.Pkg.Pkg.Name() == "css" && isHandlerSig(fn) && strings.HasSuffix(fn.Name(), "Handler") {
			keys = append(keys, k)
		}
	}
	sort.Strings(keys)
	var obls []*Obligation
	var outside []string
	for _, k := range keys {
		fn := w.funcs[k]
		l := t.lang(fn)
		if l == "re.all" {
			outside = append(outside, k+": "+strings.Join(t.notes[fn], "; "))
			continue
		}
		o := &Obligation{Name: "handler/" + k + "/no-forbidden", Fn: k, Kind: "lang", Tags: []string{prop},
			Raw: reglScript(l, forb, false), Src: "L_over(" + k + ") ∩ Forbidden = ∅ (over-approximation of the handler's accepted language, tier B)"}
		name := fn.Name()
		o.Replay = func(r *OblResult, repo, verifDir string) (string, bool) {
			for _, a := range r.Attempts {
				if m := modelStrRe.FindStringSubmatch(a.Output); a.Result == "sat" && m != nil {
					s := decodeSMTString(m[1])
					got, out := runHandler(repo, verifDir, name, s)
					txt := fmt.Sprintf("solver %s model: value = %q (matches the forbidden language: %v)\nreal css.%s(value) = %s\n%s", a.Solver, s, forbRe.MatchString(s), name, got, out)
					if got == "true" && forbRe.MatchString(s) {
						return txt, true
					}
					return txt + "(the over-approximation admits it, the real handler does not)\n", false
				}
			}
			return "no model", false
		}
		obls = append(obls, o)
	}
	if t.usedJoinLemma {
		nh := "(re.comp " + forb + ")"
		obls = append(obls, &Obligation{Name: "regl/lemma/space-join", Fn: "Forbidden", Kind: "lang", Tags: []string{prop},
			Raw: reglScript(fmt.Sprintf("(re.++ %s (re.* (re.++ (str.to_re \" \") %s)))", nh, nh), forb, false),
			Src: "join lemma: single-space joins of strings without a forbidden fragment contain no forbidden fragment: NH (\" \" NH)* ∩ Forbidden = ∅ (used for recursiveCheck-based handlers)"})
	}
	return obls, nil, outside
}
