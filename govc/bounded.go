package main

// Bounded stand-ins other than C18 tier C. They are reported under
// bounded_standins in the evidence, never counted as proved; a divergence is
// a violation (or a known finding when listed by name).

import (
	"encoding/json"
	"fmt"
	"os"
	"path/filepath"
	"sort"
	"strings"
)

type boundedFinding struct {
	Name   string // obligation-style name, matched against known_findings.json
	Replay string // text of the replay file
}

func runBounded(name, repo, verifDir, prop string, thorough bool, seed int) (map[string]interface{}, []boundedFinding) {
	switch name {
	case "C10U":
		return boundedC10U(repo, verifDir, thorough)
	}
	return map[string]interface{}{"name": name, "status": "not implemented"}, nil
}

// boundedC10U: the real removeUnicode against an independent CSS escape decoder
func boundedC10U(repo, verifDir string, thorough bool) (map[string]interface{}, []boundedFinding) {
	report := map[string]interface{}{"name": "C10U: removeUnicode vs CSS Syntax §4.3.7 escape decoding", "kind": "bounded (NOT counted as proved)"}
	tmpl, err := os.ReadFile(filepath.Join(verifDir, "replay", "c10_unicode_test.go.txt"))
	if err != nil {
		report["error"] = err.Error()
		return report, nil
	}
	n := "4"
	if thorough {
		n = "6"
	}
	work := filepath.Join(verifDir, "work", "bounded")
	out, _ := goTestOverlay(repo, ".", work, "zz_verif_c10u_test.go", string(tmpl), "^TestVerifC10Unicode$", []string{"VERIF_C10U_LEN=" + n})
	var res struct {
		MaxLen    int            `json:"max_len"`
		Alphabet  string         `json:"alphabet"`
		Evaluated int            `json:"evaluated"`
		Divergent map[string]int `json:"divergent"`
		Examples  map[string]struct {
			Input, Code, Ref, Out string
			Demonstrated        bool
		} `json:"examples"`
	}
	found := false
	for _, l := range strings.Split(out, "\n") {
		if strings.HasPrefix(l, "VERIF-C10U ") {
			found = json.Unmarshal([]byte(strings.TrimPrefix(l, "VERIF-C10U ")), &res) == nil
		}
	}
	if !found {
		report["error"] = "bounded run produced no result:\n" + out
		return report, []boundedFinding{{Name: "bounded/C10U/run", Replay: "the bounded stand-in could not be run:\n" + out}}
	}
	report["bound"] = fmt.Sprintf("values x·s·x for every string s of 1..%d characters over the alphabet %q, and x·\\h·t·x for every hex string h of 1..6 digits over \"012 7adf\" with t one of \"\", \" \", \"g\" (%d values): removeUnicode(ToLower(v)) compared with an independent decoder of CSS escapes", res.MaxLen, res.Alphabet, res.Evaluated)
	report["evaluated"] = res.Evaluated
	report["divergent_by_class"] = res.Divergent
	report["examples"] = res.Examples
	var fs []boundedFinding
	var classes []string
	for c := range res.Divergent {
		classes = append(classes, c)
	}
	sort.Strings(classes)
	for _, c := range classes {
		ex := res.Examples[c]
		txt := fmt.Sprintf("bounded stand-in C10U, divergence class %q (%d of %d strings):\nthe matcher is shown %q, a browser decodes the same value to %q\ninput document: %s\npolicy: NewPolicy(); AllowAttrs(\"style\").OnElements(\"p\"); AllowStyles(\"color\").MatchingHandler(v == %q).OnElements(\"p\")\nreal Sanitize output: %s\ndeclaration kept although the browser-decoded value is not accepted by the matcher: %v\n",
			c, res.Divergent[c], res.Evaluated, ex.Code, ex.Ref, ex.Input, ex.Code, ex.Out, ex.Demonstrated)
		fs = append(fs, boundedFinding{Name: "bounded/C10U/" + c, Replay: txt})
	}
	return report, fs
}
func runOracle(name, repo, verifDir, prop string) (string, bool) { return "no oracle", false }
