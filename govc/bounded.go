package main

// Bounded stand-ins other than C18 tier C. They are reported under
// bounded_standins in the evidence, never counted as proved; a divergence is
// a violation (or a known finding when listed by name).

import (
	"encoding/json"
	"fmt"
	"os"
	"os/exec"
	"path/filepath"
	"sort"
	"strings"

	"golang.org/x/tools/go/ssa"
)

type boundedFinding struct {
	Name   string // obligation-style name, matched against known_findings.json
	Replay string // text of the replay file
}

func runBounded(name, repo, verifDir, prop string, thorough bool, seed int) (map[string]interface{}, []boundedFinding) {
	switch name {
	case "C10U":
		return boundedC10U(repo, verifDir, thorough)
	case "C14T":
		return boundedC14T(repo, verifDir, thorough)
	}
	return map[string]interface{}{"name": name, "status": "not implemented"}, nil
}

// boundedC10U: the real removeUnicode against an independent CSS escape decoder
func boundedC10U(repo, verifDir string, thorough bool) (map[string]interface{}, []boundedFinding) {
	report := map[string]interface{}{"name": "C10U: removeUnicode vs CSS Syntax §4.3.7 escape decoding", "kind": "bounded (NOT counted as proved)"}
	tmpl, err := os.ReadFile(filepath.Join(verifDir, "replay", "c10_unicode_test.go.txt"))
	if err != nil {
		report["error"] = err.Error()
		return report, nil
	}
	n := "4"
	if thorough {
		n = "6"
	}
	work := filepath.Join(verifDir, "work", "bounded")
	out, _ := goTestOverlay(repo, ".", work, "zz_verif_c10u_test.go", string(tmpl), "^TestVerifC10Unicode$", []string{"VERIF_C10U_LEN=" + n})
	var res struct {
		MaxLen    int            `json:"max_len"`
		Alphabet  string         `json:"alphabet"`
		Evaluated int            `json:"evaluated"`
		Divergent map[string]int `json:"divergent"`
		Examples  map[string]struct {
			Input, Code, Ref, Out string
			Demonstrated        bool
		} `json:"examples"`
	}
	found := false
	for _, l := range strings.Split(out, "\n") {
		if strings.HasPrefix(l, "VERIF-C10U ") {
			found = json.Unmarshal([]byte(strings.TrimPrefix(l, "VERIF-C10U ")), &res) == nil
		}
	}
	if !found {
		report["error"] = "bounded run produced no result:\n" + out
		return report, []boundedFinding{{Name: "bounded/C10U/run", Replay: "the bounded stand-in could not be run:\n" + out}}
	}
	report["bound"] = fmt.Sprintf("values x·s·x for every string s of 1..%d characters over the alphabet %q, and x·\\h·t·x for every hex string h of 1..6 digits over \"012 7adf\" with t one of \"\", \" \", \"g\" (%d values): removeUnicode(ToLower(v)) compared with an independent decoder of CSS escapes", res.MaxLen, res.Alphabet, res.Evaluated)
	report["evaluated"] = res.Evaluated
	report["divergent_by_class"] = res.Divergent
	report["examples"] = res.Examples
	var fs []boundedFinding
	var classes []string
	for c := range res.Divergent {
		classes = append(classes, c)
	}
	sort.Strings(classes)
	for _, c := range classes {
		ex := res.Examples[c]
		txt := fmt.Sprintf("bounded stand-in C10U, divergence class %q (%d of %d strings):\nthe matcher is shown %q, a browser decodes the same value to %q\ninput document: %s\npolicy: NewPolicy(); AllowAttrs(\"style\").OnElements(\"p\"); AllowStyles(\"color\").MatchingHandler(v == %q).OnElements(\"p\")\nreal Sanitize output: %s\ndeclaration kept although the browser-decoded value is not accepted by the matcher: %v\n",
			c, res.Divergent[c], res.Evaluated, ex.Code, ex.Ref, ex.Input, ex.Code, ex.Out, ex.Demonstrated)
		fs = append(fs, boundedFinding{Name: "bounded/C10U/" + c, Replay: txt})
	}
	return report, fs
}
// boundedC14T: work done by css.recursiveCheck (number of activations, counted by a mechanically
// instrumented copy of css/handlers.go injected with -overlay) on size-parameterised value families,
// against a quadratic bound
func boundedC14T(repo, verifDir string, thorough bool) (map[string]interface{}, []boundedFinding) {
	report := map[string]interface{}{"name": "C14T: activations of css.recursiveCheck per handler call on families k × token + \" x\"", "kind": "bounded (NOT counted as proved)"}
	src, err := os.ReadFile(filepath.Join(repo, "css", "handlers.go"))
	if err != nil {
		report["error"] = err.Error()
		return report, nil
	}
	const hook = "func recursiveCheck(value []string, funcs []func(string) bool) bool {"
	if strings.Count(string(src), hook) != 1 {
		report["error"] = "css.recursiveCheck not found with the expected signature"
		return report, []boundedFinding{{Name: "bounded/C14T/run", Replay: "css.recursiveCheck not found with the expected signature: the instrumentation point is gone"}}
	}
	inst := strings.Replace(string(src), hook, hook+"\n\tVerifRecursiveCalls++", 1) + "\n// VerifRecursiveCalls counts activations of recursiveCheck (verification instrumentation, overlay only)\nvar VerifRecursiveCalls int\n"
	specDir := envOr("VERIF_SPECS", "/verif/specs")
	w, err := LoadWorld(repo, []string{specDir})
	if err != nil {
		report["error"] = err.Error()
		return report, nil
	}
	vocab := map[string][]string{}
	var reg strings.Builder
	var names []string
	for _, fn := range w.funcs {
		if fn.Pkg != nil && fn.Pkg.Pkg.Name() == "css" && isHandlerSig(fn) && strings.HasSuffix(fn.Name(), "Handler") {
			names = append(names, fn.Name())
		}
	}
	sort.Strings(names)
	for _, n := range names {
		fn := w.funcs["css."+n]
		c := stringConsts(fn)
		for _, callee := range calleesOf(fn) {
			c = append(c, stringConsts(callee)...)
		}
		if len(c) > 10 {
			c = c[:10]
		}
		vocab[n] = append(c, "1px", "red", "auto")
		fmt.Fprintf(&reg, "\t%q: %s,\n", n, n)
	}
	k := 14
	if thorough {
		k = 18
	}
	work := filepath.Join(verifDir, "work", "bounded")
	os.MkdirAll(work, 0o755)
	instFile := filepath.Join(work, "handlers_instrumented.go")
	os.WriteFile(instFile, []byte(inst), 0o644)
	cfg := map[string]interface{}{"k": k, "vocab": vocab}
	cb, _ := json.Marshal(cfg)
	cfgFile := filepath.Join(work, "c14t.json")
	os.WriteFile(cfgFile, cb, 0o644)
	testSrc := fmt.Sprintf(c14tTest, reg.String())
	testFile := filepath.Join(work, "zz_verif_c14t_test.go")
	os.WriteFile(testFile, []byte(testSrc), 0o644)
	ov := map[string]map[string]string{"Replace": {filepath.Join(repo, "css", "handlers.go"): instFile, filepath.Join(repo, "css", "zz_verif_c14t_test.go"): testFile}}
	ob, _ := json.Marshal(ov)
	ovFile := filepath.Join(work, "overlay-c14t.json")
	os.WriteFile(ovFile, ob, 0o644)
	cmd := exec.Command("go", "test", "-overlay", ovFile, "-vet=off", "-count=1", "-timeout", "600s", "-v", "-run", "^TestVerifC14T$", ".")
	cmd.Dir = filepath.Join(repo, "css")
	cmd.Env = append(os.Environ(), "GOFLAGS=-mod=mod", "GOPROXY=off", "GOSUMDB=off", "GOTOOLCHAIN=local", "VERIF_C14T="+cfgFile)
	outB, _ := cmd.CombinedOutput()
	out := string(outB)
	var res map[string]struct {
		Worst string `json:"worst"`
		Calls []int  `json:"calls"`
		Ks    []int  `json:"ks"`
	}
	found := false
	for _, l := range strings.Split(out, "\n") {
		if strings.HasPrefix(l, "VERIF-C14T ") {
			found = json.Unmarshal([]byte(strings.TrimPrefix(l, "VERIF-C14T ")), &res) == nil
		}
	}
	if !found {
		report["error"] = "bounded run produced no result:\n" + out
		return report, []boundedFinding{{Name: "bounded/C14T/run", Replay: "the bounded stand-in could not be run:\n" + out}}
	}
	report["bound"] = fmt.Sprintf("for every css handler and every token t of its vocabulary (string constants of the handler and its callees, 1px, red, auto): values k × t + \" x\" for k = 2, 4, ..., %d; activations of recursiveCheck must stay below 16·k² + 64", k)
	report["handlers"] = len(res)
	worst := map[string]interface{}{}
	var fs []boundedFinding
	var hs []string
	for h := range res {
		hs = append(hs, h)
	}
	sort.Strings(hs)
	evals := 0
	for _, h := range hs {
		r := res[h]
		evals += len(r.Calls)
		bad := false
		for i, c := range r.Calls {
			if c > 16*r.Ks[i]*r.Ks[i]+64 {
				bad = true
			}
		}
		if bad {
			worst[h] = map[string]interface{}{"value_family": r.Worst, "k": r.Ks, "activations": r.Calls}
			fs = append(fs, boundedFinding{Name: "bounded/C14T/" + h, Replay: fmt.Sprintf("bounded stand-in C14T: css.%s on %s: activations of recursiveCheck for k = %v: %v (bound 16·k² + 64)\n", h, r.Worst, r.Ks, r.Calls)})
		}
	}
	report["evaluations"] = evals
	report["superpolynomial"] = worst
	return report, fs
}

// calleesOf: repo functions called directly by fn
func calleesOf(fn *ssa.Function) []*ssa.Function {
	var cs []*ssa.Function
	seen := map[*ssa.Function]bool{}
	for _, b := range fn.Blocks {
		for _, in := range b.Instrs {
			if c, ok := in.(ssa.CallInstruction); ok {
				if callee := c.Common().StaticCallee(); callee != nil && callee.Blocks != nil && !seen[callee] {
					seen[callee] = true
					cs = append(cs, callee)
				}
			}
			// function values stored in slices (usedFunctions)
			if st, ok := in.(*ssa.Store); ok {
				if f, ok := st.Val.(*ssa.Function); ok && f.Blocks != nil && !seen[f] {
					seen[f] = true
					cs = append(cs, f)
				}
			}
		}
	}
	return cs
}

const c14tTest = `package css

import (
	"encoding/json"
	"fmt"
	"os"
	"strings"
	"testing"
)

var verifC14Handlers = map[string]func(string) bool{
%s}

func TestVerifC14T(t *testing.T) {
	b, err := os.ReadFile(os.Getenv("VERIF_C14T"))
	if err != nil {
		t.Fatal(err)
	}
	var cfg struct {
		K     int                 ` + "`json:\"k\"`" + `
		Vocab map[string][]string ` + "`json:\"vocab\"`" + `
	}
	if err := json.Unmarshal(b, &cfg); err != nil {
		t.Fatal(err)
	}
	type res struct {
		Worst string ` + "`json:\"worst\"`" + `
		Calls []int  ` + "`json:\"calls\"`" + `
		Ks    []int  ` + "`json:\"ks\"`" + `
	}
	out := map[string]*res{}
	for name, h := range verifC14Handlers {
		best := &res{}
		for _, tok := range cfg.Vocab[name] {
			if strings.ContainsAny(tok, " ") || tok == "" {
				continue
			}
			r := &res{Worst: fmt.Sprintf("k × %%q + \" x\"", tok)}
			for k := 2; k <= cfg.K; k += 2 {
				v := strings.Repeat(tok+" ", k) + "x"
				VerifRecursiveCalls = 0
				h(v)
				r.Calls = append(r.Calls, VerifRecursiveCalls)
				r.Ks = append(r.Ks, k)
				if VerifRecursiveCalls > 16*k*k+64 {
					break // the bound is already exceeded: larger k would only take longer
				}
			}
			if len(best.Calls) == 0 || r.Calls[len(r.Calls)-1] > best.Calls[len(best.Calls)-1] {
				best = r
			}
		}
		out[name] = best
	}
	ob, _ := json.Marshal(out)
	fmt.Println("VERIF-C14T " + string(ob))
}
`

var oracleCache = map[string][2]string{}

// runOracle: bounded search, on the tree under check, for a concrete policy + input on which the
// property visibly fails (replay/oracle_test.go.txt). Only illustrates a violation already reported.
func runOracle(name, repo, verifDir, prop string) (string, bool) {
	if c, ok := oracleCache[prop]; ok {
		return c[0], c[1] == "found"
	}
	res := func(txt string, found bool) (string, bool) {
		f := ""
		if found {
			f = "found"
		}
		oracleCache[prop] = [2]string{txt, f}
		return txt, found
	}
	tmpl, err := os.ReadFile(filepath.Join(verifDir, "replay", "oracle_test.go.txt"))
	if err != nil {
		return res(err.Error(), false)
	}
	out, _ := goTestOverlay(repo, ".", filepath.Join(verifDir, "work", "oracle"), "zz_verif_oracle_test.go", string(tmpl), "^TestVerifOracle$", []string{"VERIF_ORACLE_PROP=" + prop})
	for _, l := range strings.Split(out, "\n") {
		if strings.HasPrefix(l, "VERIF-ORACLE ") {
			var r struct {
				Policy, Input, Output, Why string
				Tried                      int
			}
			if json.Unmarshal([]byte(strings.TrimPrefix(l, "VERIF-ORACLE ")), &r) != nil {
				continue
			}
			if r.Why == "" {
				return res(fmt.Sprintf("bounded search over %d policy/document pairs found no failing input", r.Tried), false)
			}
			return res(fmt.Sprintf("policy: %s\ninput:  %s\noutput: %s\n%s\n(found by a bounded search over small policies and documents on the tree under check, after %d tries; it illustrates the property-level failure, it is not the solver's model of this particular obligation)", r.Policy, r.Input, r.Output, r.Why, r.Tried), true)
		}
	}
	return res("the oracle could not be run:\n"+out, false)
}
