package main

import (
	"bytes"
	"context"
	"fmt"
	"go/types"
	"os"
	"os/exec"
	"path/filepath"
	"regexp"
	"sort"
	"strings"
	"sync"
	"time"
)

const prelude = `(declare-sort Str 0)
(declare-sort Ref 0)
(declare-datatypes ((Slice 0)) (((mk_slice (s_arr Ref) (s_off Int) (s_len Int)))))
(declare-const nil Ref)
(declare-fun birth (Ref) Int)
(define-fun isalloc ((now Int) (r Ref)) Bool (< (birth r) now))
(define-fun nilslice () Slice (mk_slice nil 0 0))
(declare-fun addi (Int Int) Int)
(assert (forall ((a Int) (b Int)) (! (= (addi a b) (+ a b)) :pattern ((addi a b)))))
(declare-fun slen (Str) Int)
(declare-fun sconcat (Str Str) Str)
(declare-fun ssub (Str Int Int) Str)
(declare-fun sbyte (Str Int) Int)
(declare-fun scmplt (Str Str) Bool)
(declare-fun scmple (Str Str) Bool)
(declare-fun scmpgt (Str Str) Bool)
(declare-fun scmpge (Str Str) Bool)
(declare-fun godiv (Int Int) Int)
(declare-fun gorem (Int Int) Int)
(assert (forall ((s Str)) (! (>= (slen s) 0) :pattern ((slen s)))))
`

// prelude axioms included only when the symbol occurs in the query (keeps
// irrelevant quantifiers, in particular the non-linear div/mod one, out)
var preludeOnDemand = []struct{ sym, axiom string }{
	{"(sconcat ", "(assert (forall ((a Str) (b Str)) (! (= (slen (sconcat a b)) (+ (slen a) (slen b))) :pattern ((sconcat a b)))))"},
	{"(ssub ", "(assert (forall ((s Str) (i Int) (j Int)) (! (=> (and (<= 0 i) (<= i j) (<= j (slen s))) (= (slen (ssub s i j)) (- j i))) :pattern ((ssub s i j)))))"},
	{"(godiv ", "(assert (forall ((a Int) (b Int)) (! (=> (and (>= a 0) (> b 0)) (= (godiv a b) (div a b))) :pattern ((godiv a b)))))"},
	{"(gorem ", "(assert (forall ((a Int) (b Int)) (! (=> (and (>= a 0) (> b 0)) (= (gorem a b) (mod a b))) :pattern ((gorem a b)))))"},
}

var litRe = regexp.MustCompile(`\|strx?:[^|]*\|`)

func decodeLit(sym string) string {
	s := strings.Trim(sym, "|")
	if strings.HasPrefix(s, "strx:") {
		var b []byte
		fmt.Sscanf(s[5:], "%x", &b)
		return string(b)
	}
	return s[4:]
}

// allocFacts: facts "every reference inside value term t of type T is nil or allocated in allocTerm"
func (w *World) allocFacts(t string, T types.Type, allocTerm string) []string {
	var out []string
	switch u := T.Underlying().(type) {
	case *types.Slice:
		out = append(out, fmt.Sprintf("(or (= (s_arr %s) nil) (isalloc %s (s_arr %s)))", t, allocTerm, t))
	case *types.Pointer, *types.Map, *types.Interface, *types.Signature, *types.Chan:
		out = append(out, fmt.Sprintf("(or (= %s nil) (isalloc %s %s))", t, allocTerm, t))
	case *types.Struct:
		for i := 0; i < u.NumFields(); i++ {
			out = append(out, w.allocFacts(w.structSel(T, i, t), u.Field(i).Type(), allocTerm)...)
		}
	}
	return out
}

// Script renders the SMT-LIB query for one obligation.
func (o *Obligation) Script(forCVC5 bool) string {
	if o.Raw != "" {
		return o.Raw
	}
	e := o.enc
	w := e.w
	var body bytes.Buffer
	for _, n := range e.funOrder {
		body.WriteString(e.funDecls[n] + "\n")
	}
	for _, n := range e.declOrder {
		if e.decls[n] != "" {
			fmt.Fprintf(&body, "(declare-const %s %s)\n", n, e.decls[n])
		}
	}
	// closure of the entry heaps
	alloc0 := q("alloc#0")
	for _, n := range e.declOrder {
		if !strings.HasSuffix(n, "#0|") || n == alloc0 {
			continue
		}
		h := strings.TrimSuffix(strings.TrimPrefix(n, "|"), "#0|")
		meta, ok := w.heapMeta[h]
		if !ok {
			continue
		}
		switch {
		case strings.HasPrefix(h, "F."), strings.HasPrefix(h, "C."):
			if fs := w.allocFacts(fmt.Sprintf("(select %s r)", n), meta, alloc0); len(fs) > 0 {
				fmt.Fprintf(&body, "(assert (forall ((r Ref)) (! (=> (isalloc %s r) (and %s)) :pattern ((select %s r)))))\n", alloc0, strings.Join(fs, " "), n)
			}
		case strings.HasPrefix(h, "A."):
			if fs := w.allocFacts(fmt.Sprintf("(select (select %s r) i)", n), meta, alloc0); len(fs) > 0 {
				fmt.Fprintf(&body, "(assert (forall ((r Ref) (i Int)) (! (=> (isalloc %s r) (and %s)) :pattern ((select (select %s r) i)))))\n", alloc0, strings.Join(fs, " "), n)
			}
		case strings.HasPrefix(h, "MV."):
			mt := meta.Underlying().(*types.Map)
			md := q("MD." + strings.TrimPrefix(h, "MV.") + "#0")
			if _, declared := e.decls[md]; !declared {
				continue
			}
			if fs := w.allocFacts(fmt.Sprintf("(select (select %s r) k)", n), mt.Elem(), alloc0); len(fs) > 0 {
				fmt.Fprintf(&body, "(assert (forall ((r Ref) (k %s)) (! (=> (and (isalloc %s r) (select (select %s r) k)) (and %s)) :pattern ((select (select %s r) k)))))\n",
					w.sortOf(mt.Key()), alloc0, md, strings.Join(fs, " "), n)
			}
		case strings.HasPrefix(h, "MD."):
			mt := meta.Underlying().(*types.Map)
			if w.sortOf(mt.Key()) == "Ref" {
				fmt.Fprintf(&body, "(assert (forall ((r Ref) (k Ref)) (! (=> (and (isalloc %s r) (select (select %s r) k)) (isalloc %s k)) :pattern ((select (select %s r) k)))))\n", alloc0, n, alloc0, n)
			}
		}
	}
	// only assertions of blocks from which the obligation's block is reachable
	// (back edges removed) matter: everything else is off every path to it
	anc := e.ancestors(o.Block)
	for i, a := range e.asserts[:o.Prefix] {
		if anc != nil && e.assertBlk[i] != nil && !anc[e.assertBlk[i]] {
			continue
		}
		fmt.Fprintf(&body, "(assert %s)\n", a)
	}
	fmt.Fprintf(&body, "(assert %s)\n(assert (not %s))\n", o.Reach, o.Goal)

	var hdr bytes.Buffer
	hdr.WriteString("(set-option :produce-models true)\n")
	if forCVC5 {
		hdr.WriteString("(set-logic ALL)\n")
	}
	fmt.Fprintf(&hdr, "; obligation %s\n; function %s segment %s\n; source: %s\n", o.Name, o.Fn, o.Segment, strings.ReplaceAll(o.Src, "\n", " "))
	hdr.WriteString(prelude)
	bodyStr := body.String()
	for _, pa := range preludeOnDemand {
		if strings.Contains(bodyStr, pa.sym) {
			hdr.WriteString(pa.axiom + "\n")
		}
	}
	for _, d := range w.dtDecls {
		hdr.WriteString(d + "\n")
	}
	// string literals
	lits := map[string]bool{strLit(""): true}
	for _, m := range litRe.FindAllString(body.String(), -1) {
		lits[m] = true
	}
	var ls []string
	for l := range lits {
		ls = append(ls, l)
	}
	sort.Strings(ls)
	for _, l := range ls {
		fmt.Fprintf(&hdr, "(declare-const %s Str)\n(assert (= (slen %s) %d))\n", l, l, len(decodeLit(l)))
	}
	if len(ls) > 1 {
		fmt.Fprintf(&hdr, "(assert (distinct %s))\n", strings.Join(ls, " "))
	}
	if strings.Contains(bodyStr, "(slen ") {
		hdr.WriteString("(assert (forall ((s Str)) (! (=> (= (slen s) 0) (= s |str:|)) :pattern ((slen s)))))\n")
	}
	return hdr.String() + body.String() + "(check-sat)\n(get-model)\n"
}

type SolverResult struct {
	Solver string  `json:"solver"`
	Result string  `json:"result"` // unsat sat unknown timeout error
	Secs   float64 `json:"secs"`
	Output string  `json:"-"`
}

type OblResult struct {
	O        *Obligation
	File     string
	Status   string // discharged failed
	By       string
	Secs     float64
	Attempts []SolverResult
}

var solverCmds = map[string]func(file string, timeout int) []string{
	"z3-new": func(f string, t int) []string { return []string{"z3-new", fmt.Sprintf("-T:%d", t), f} },
	// same solver, legacy simplex core: an independent search strategy that is often much faster on these VCs
	"z3-new/as2": func(f string, t int) []string {
		return []string{"z3-new", fmt.Sprintf("-T:%d", t), "smt.arith.solver=2", f}
	},
	"z3":   func(f string, t int) []string { return []string{"z3", fmt.Sprintf("-T:%d", t), f} },
	"cvc5": func(f string, t int) []string { return []string{"cvc5", fmt.Sprintf("--tlimit=%d", t*1000), f} },
}

func runSolver(name, file string, timeout int) SolverResult {
	args := solverCmds[name](file, timeout)
	ctx, cancel := context.WithTimeout(context.Background(), time.Duration(timeout+5)*time.Second)
	defer cancel()
	start := time.Now()
	cmd := exec.CommandContext(ctx, args[0], args[1:]...)
	out, _ := cmd.CombinedOutput()
	secs := time.Since(start).Seconds()
	first := strings.TrimSpace(strings.SplitN(string(out), "\n", 2)[0])
	res := "error"
	switch {
	case first == "unsat" || first == "sat" || first == "unknown":
		res = first
	case strings.Contains(first, "timeout") || ctx.Err() != nil || strings.Contains(string(out), "interrupted by timeout"):
		res = "timeout"
	}
	return SolverResult{Solver: name, Result: res, Secs: secs, Output: string(out)}
}

// Discharge runs the portfolio on all obligations, in parallel.
func Discharge(obls []*Obligation, dir string, timeout int, thorough bool, jobs int, knownFail func(*Obligation) bool) []*OblResult {
	os.MkdirAll(dir, 0o755)
	results := make([]*OblResult, len(obls))
	// scripts are rendered sequentially (the encoder's caches are not goroutine-safe)
	scripts := make([][2]string, len(obls))
	for i, o := range obls {
		scripts[i][0] = o.Script(false)
		if o.Raw != "" {
			scripts[i][1] = scripts[i][0]
		} else {
			scripts[i][1] = o.Script(true)
		}
	}
	var wg sync.WaitGroup
	sem := make(chan struct{}, jobs)
	for i, o := range obls {
		wg.Add(1)
		go func(i int, o *Obligation) {
			defer wg.Done()
			sem <- struct{}{}
			defer func() { <-sem }()
			base := filepath.Join(dir, fmt.Sprintf("%04d", i))
			f := base + ".smt2"
			os.WriteFile(f, []byte(scripts[i][0]), 0o644)
			r := &OblResult{O: o, File: f, Status: "failed"}
			start := time.Now()
			try := func(s string) bool {
				file := f
				if s == "cvc5" {
					file = base + ".cvc5.smt2"
					os.WriteFile(file, []byte(scripts[i][1]), 0o644)
				}
				to := timeout
				if (s == "z3-new" || s == "cvc5") && !thorough && timeout >= 4 {
					to = timeout / 2
				}
				sr := runSolver(s, file, to)
				r.Attempts = append(r.Attempts, sr)
				if sr.Result == "unsat" {
					if r.By == "" {
						r.By = s
					} else {
						r.By += "+" + s
					}
					r.Status = "discharged"
					return true
				}
				return false
			}
			if knownFail != nil && knownFail(o) && !thorough {
				// recorded finding: one short attempt (it is expected not to discharge)
				sr := runSolver("z3-new", f, 3)
				r.Attempts = append(r.Attempts, sr)
				if sr.Result == "unsat" {
					r.By, r.Status = "z3-new", "discharged"
				}
			} else if thorough {
				// all solvers are consulted; every definite answer must agree
				for _, s := range []string{"z3-new", "z3-new/as2", "z3", "cvc5"} {
					try(s)
				}
				for _, a := range r.Attempts {
					if a.Result == "sat" {
						r.Status = "failed"
					}
				}
			} else {
				// first definite answer wins
				definite := func() bool {
					a := r.Attempts[len(r.Attempts)-1]
					return a.Result == "sat" || a.Result == "unsat"
				}
				for _, s := range []string{"z3-new", "z3-new/as2", "z3", "cvc5"} {
					try(s)
					if definite() {
						break
					}
				}
			}
			r.Secs = time.Since(start).Seconds()
			results[i] = r
		}(i, o)
	}
	wg.Wait()
	return results
}
