package main

import (
	"bytes"
	"context"
	"fmt"
	"go/types"
	"os"
	"os/exec"
	"path/filepath"
	"regexp"
	"sort"
	"strings"
	"sync"
	"time"

	"golang.org/x/tools/go/ssa"
)

const prelude = `(declare-sort Str 0)
(declare-sort Ref 0)
(declare-datatypes ((Slice 0)) (((mk_slice (s_arr Ref) (s_off Int) (s_len Int)))))
(declare-const nil Ref)
(declare-fun birth (Ref) Int)
(define-fun isalloc ((now Int) (r Ref)) Bool (< (birth r) now))
(define-fun nilslice () Slice (mk_slice nil 0 0))
(declare-fun addi (Int Int) Int)
(assert (forall ((a Int) (b Int)) (! (= (addi a b) (+ a b)) :pattern ((addi a b)))))
(declare-fun slen (Str) Int)
(declare-fun sconcat (Str Str) Str)
(declare-fun ssub (Str Int Int) Str)
(declare-fun sbyte (Str Int) Int)
(declare-fun scmplt (Str Str) Bool)
(declare-fun scmple (Str Str) Bool)
(declare-fun scmpgt (Str Str) Bool)
(declare-fun scmpge (Str Str) Bool)
(declare-fun godiv (Int Int) Int)
(declare-fun gorem (Int Int) Int)
(assert (forall ((s Str)) (! (>= (slen s) 0) :pattern ((slen s)))))
`

// prelude axioms included only when the symbol occurs in the query (keeps
// irrelevant quantifiers, in particular the non-linear div/mod one, out)
var preludeOnDemand = []struct{ sym, axiom string }{
	{"(sconcat ", "(assert (forall ((a Str) (b Str)) (! (= (slen (sconcat a b)) (+ (slen a) (slen b))) :pattern ((sconcat a b)))))"},
	{"(ssub ", "(assert (forall ((s Str) (i Int) (j Int)) (! (=> (and (<= 0 i) (<= i j) (<= j (slen s))) (= (slen (ssub s i j)) (- j i))) :pattern ((ssub s i j)))))"},
	{"(godiv ", "(assert (forall ((a Int) (b Int)) (! (=> (and (>= a 0) (> b 0)) (= (godiv a b) (div a b))) :pattern ((godiv a b)))))"},
	{"(gorem ", "(assert (forall ((a Int) (b Int)) (! (=> (and (>= a 0) (> b 0)) (= (gorem a b) (mod a b))) :pattern ((gorem a b)))))"},
}

var litRe = regexp.MustCompile(`\|strx?:[^|]*\|`)

func decodeLit(sym string) string {
	s := strings.Trim(sym, "|")
	if strings.HasPrefix(s, "strx:") {
		var b []byte
		fmt.Sscanf(s[5:], "%x", &b)
		return string(b)
	}
	return s[4:]
}

// allocFacts: facts "every reference inside value term t of type T is nil or allocated in allocTerm"
func (w *World) allocFacts(t string, T types.Type, allocTerm string) []string {
	var out []string
	switch u := T.Underlying().(type) {
	case *types.Slice:
		out = append(out, fmt.Sprintf("(or (= (s_arr %s) nil) (isalloc %s (s_arr %s)))", t, allocTerm, t))
	case *types.Pointer, *types.Map, *types.Interface, *types.Signature, *types.Chan:
		out = append(out, fmt.Sprintf("(or (= %s nil) (isalloc %s %s))", t, allocTerm, t))
	case *types.Struct:
		for i := 0; i < u.NumFields(); i++ {
			out = append(out, w.allocFacts(w.structSel(T, i, t), u.Field(i).Type(), allocTerm)...)
		}
	}
	return out
}

// Script renders the SMT-LIB query for one obligation.
func (o *Obligation) Script(forCVC5 bool) string {
	if o.Raw != "" {
		return o.Raw
	}
	e := o.enc
	w := e.w
	var body bytes.Buffer
	for _, n := range e.funOrder {
		body.WriteString(e.funDecls[n] + "\n")
	}
	for _, n := range e.declOrder {
		if e.decls[n] != "" {
			fmt.Fprintf(&body, "(declare-const %s %s)\n", n, e.decls[n])
		}
	}
	// closure of the entry heaps
	alloc0 := q("alloc#0")
	for _, n := range e.declOrder {
		if !strings.HasSuffix(n, "#0|") || n == alloc0 {
			continue
		}
		h := strings.TrimSuffix(strings.TrimPrefix(n, "|"), "#0|")
		meta, ok := w.heapMeta[h]
		if !ok {
			continue
		}
		switch {
		case strings.HasPrefix(h, "F."), strings.HasPrefix(h, "C."):
			if fs := w.allocFacts(fmt.Sprintf("(select %s r)", n), meta, alloc0); len(fs) > 0 {
				fmt.Fprintf(&body, "(assert (forall ((r Ref)) (! (=> (isalloc %s r) (and %s)) :pattern ((select %s r)))))\n", alloc0, strings.Join(fs, " "), n)
			}
		case strings.HasPrefix(h, "A."):
			if fs := w.allocFacts(fmt.Sprintf("(select (select %s r) i)", n), meta, alloc0); len(fs) > 0 {
				fmt.Fprintf(&body, "(assert (forall ((r Ref) (i Int)) (! (=> (isalloc %s r) (and %s)) :pattern ((select (select %s r) i)))))\n", alloc0, strings.Join(fs, " "), n)
			}
		case strings.HasPrefix(h, "MV."):
			mt := meta.Underlying().(*types.Map)
			md := q("MD." + strings.TrimPrefix(h, "MV.") + "#0")
			if _, declared := e.decls[md]; !declared {
				continue
			}
			if fs := w.allocFacts(fmt.Sprintf("(select (select %s r) k)", n), mt.Elem(), alloc0); len(fs) > 0 {
				fmt.Fprintf(&body, "(assert (forall ((r Ref) (k %s)) (! (=> (and (isalloc %s r) (select (select %s r) k)) (and %s)) :pattern ((select (select %s r) k)))))\n",
					w.sortOf(mt.Key()), alloc0, md, strings.Join(fs, " "), n)
			}
		case strings.HasPrefix(h, "MD."):
			mt := meta.Underlying().(*types.Map)
			if w.sortOf(mt.Key()) == "Ref" {
				fmt.Fprintf(&body, "(assert (forall ((r Ref) (k Ref)) (! (=> (and (isalloc %s r) (select (select %s r) k)) (isalloc %s k)) :pattern ((select (select %s r) k)))))\n", alloc0, n, alloc0, n)
			}
		}
	}
	// only assertions of blocks from which the obligation's block is reachable
	// (back edges removed) matter: everything else is off every path to it
	anc := e.ancestors(o.Block)
	for i, a := range e.asserts[:o.Prefix] {
		if anc != nil && e.assertBlk[i] != nil && !anc[e.assertBlk[i]] {
			continue
		}
		fmt.Fprintf(&body, "(assert %s)\n", a)
	}
	fmt.Fprintf(&body, "(assert %s)\n(assert (not %s))\n", o.Reach, o.Goal)

	var hdr bytes.Buffer
	hdr.WriteString("(set-option :produce-models true)\n")
	if forCVC5 {
		hdr.WriteString("(set-logic ALL)\n")
	}
	fmt.Fprintf(&hdr, "; obligation %s\n; function %s segment %s\n; source: %s\n", o.Name, o.Fn, o.Segment, strings.ReplaceAll(o.Src, "\n", " "))
	hdr.WriteString(prelude)
	bodyStr := body.String()
	for _, pa := range preludeOnDemand {
		if strings.Contains(bodyStr, pa.sym) {
			hdr.WriteString(pa.axiom + "\n")
		}
	}
	for _, d := range w.dtDecls {
		hdr.WriteString(d + "\n")
	}
	// string literals
	lits := map[string]bool{strLit(""): true}
	for _, m := range litRe.FindAllString(body.String(), -1) {
		lits[m] = true
	}
	var ls []string
	for l := range lits {
		ls = append(ls, l)
	}
	sort.Strings(ls)
	for _, l := range ls {
		fmt.Fprintf(&hdr, "(declare-const %s Str)\n(assert (= (slen %s) %d))\n", l, l, len(decodeLit(l)))
	}
	if len(ls) > 1 {
		fmt.Fprintf(&hdr, "(assert (distinct %s))\n", strings.Join(ls, " "))
	}
	if strings.Contains(bodyStr, "(slen ") {
		hdr.WriteString("(assert (forall ((s Str)) (! (=> (= (slen s) 0) (= s |str:|)) :pattern ((slen s)))))\n")
	}
	return hdr.String() + body.String() + "(check-sat)\n(get-model)\n"
}

type SolverResult struct {
	Solver string  `json:"solver"`
	Result string  `json:"result"` // unsat sat unknown timeout error
	Secs   float64 `json:"secs"`
	Output string  `json:"-"`
}

type OblResult struct {
	O        *Obligation
	File     string
	Status   string // discharged failed
	By       string
	Secs     float64
	Attempts []SolverResult
	Split    int      // number of path cases the obligation was split into (0: not split)
	FailPath []string // for a split obligation: the path case(s) that did not discharge
}

// nearestMerge walks up from b along single non-back-edge predecessors and
// returns the first block with several incoming (non-back) edges, and those predecessors.
func nearestMerge(fv *FuncVerifier, b *ssa.BasicBlock) (*ssa.BasicBlock, []*ssa.BasicBlock) {
	for b != nil {
		var preds []*ssa.BasicBlock
		seen := map[*ssa.BasicBlock]bool{}
		for _, p := range b.Preds {
			if fv.isBackEdge(p, b) || seen[p] {
				continue
			}
			seen[p] = true
			preds = append(preds, p)
		}
		if len(preds) >= 2 {
			return b, preds
		}
		if len(preds) == 0 {
			return nil, nil
		}
		b = preds[0]
	}
	return nil, nil
}

// splitDischarge: divide-and-conquer over the control-flow paths into the
// obligation's block. reach(b) is the disjunction of b's incoming edges, so the
// obligation holds iff it holds under each edge; cases that still do not
// discharge are split again (bounded).
func splitDischarge(o *Obligation, script string, base string, timeout int) (ok bool, cases int, by string, failPaths []string, attempts []SolverResult) {
	if o.enc == nil || o.Block == nil {
		return false, 0, "", nil, nil
	}
	fv := o.enc.fv
	type item struct {
		assume []string
		from   *ssa.BasicBlock
		depth  int
	}
	cut := strings.LastIndex(script, "(check-sat)")
	if cut < 0 {
		return false, 0, "", nil, nil
	}
	work := []item{{nil, o.Block, 0}}
	first := true
	n := 0
	began := time.Now()
	used := map[string]bool{}
	for len(work) > 0 {
		it := work[0]
		work = work[1:]
		if !first {
			// try this case as is
			n++
			if n > 24 || time.Since(began) > time.Duration(4*timeout)*time.Second {
				return false, n, "", append(failPaths, "case/time budget exhausted"), attempts
			}
			var sb strings.Builder
			sb.WriteString(script[:cut])
			for _, a := range it.assume {
				fmt.Fprintf(&sb, "(assert %s)\n", a)
			}
			sb.WriteString("(check-sat)\n")
			f := fmt.Sprintf("%s.case%02d.smt2", base, n)
			os.WriteFile(f, []byte(sb.String()), 0o644)
			res := raceSolvers([]string{"z3-new", "z3-new/as2"}, f, timeout)
			done := false
			for _, r := range res {
				attempts = append(attempts, r)
				if r.Result == "unsat" {
					done = true
					used[r.Solver] = true
				}
				if r.Result == "sat" {
					return false, n, "", append(failPaths, strings.Join(it.assume, " ")+" (sat)"), attempts
				}
			}
			if done {
				continue
			}
			if it.depth >= 5 {
				failPaths = append(failPaths, strings.Join(it.assume, " "))
				continue
			}
		}
		first = false
		m, preds := nearestMerge(fv, it.from)
		if m == nil {
			if len(it.assume) > 0 {
				failPaths = append(failPaths, strings.Join(it.assume, " "))
			} else {
				return false, n, "", nil, attempts
			}
			continue
		}
		for _, p := range preds {
			en := q(fmt.Sprintf("edge.%s.%s", blockLabel(p), blockLabel(m)))
			work = append(work, item{append(append([]string{}, it.assume...), en), p, it.depth + 1})
		}
	}
	var us []string
	for k := range used {
		us = append(us, k)
	}
	sort.Strings(us)
	return len(failPaths) == 0 && n > 0, n, "split(" + strings.Join(us, ",") + ")", failPaths, attempts
}

var solverCmds = map[string]func(file string, timeout int) []string{
	"z3-new": func(f string, t int) []string { return []string{"z3-new", fmt.Sprintf("-T:%d", t), f} },
	// same solver, legacy simplex core: an independent search strategy that is often much faster on these VCs
	"z3-new/as2": func(f string, t int) []string {
		return []string{"z3-new", fmt.Sprintf("-T:%d", t), "smt.arith.solver=2", f}
	},
	"z3":   func(f string, t int) []string { return []string{"z3", fmt.Sprintf("-T:%d", t), f} },
	"cvc5": func(f string, t int) []string { return []string{"cvc5", fmt.Sprintf("--tlimit=%d", t*1000), f} },
}

func runSolver(name, file string, timeout int) SolverResult {
	args := solverCmds[name](file, timeout)
	ctx, cancel := context.WithTimeout(context.Background(), time.Duration(timeout+5)*time.Second)
	defer cancel()
	start := time.Now()
	cmd := exec.CommandContext(ctx, args[0], args[1:]...)
	out, _ := cmd.CombinedOutput()
	secs := time.Since(start).Seconds()
	first := strings.TrimSpace(strings.SplitN(string(out), "\n", 2)[0])
	res := "error"
	switch {
	case first == "unsat" || first == "sat" || first == "unknown":
		res = first
	case strings.Contains(first, "timeout") || ctx.Err() != nil || strings.Contains(string(out), "interrupted by timeout"):
		res = "timeout"
	}
	return SolverResult{Solver: name, Result: res, Secs: secs, Output: string(out)}
}

// raceSolvers runs several strategies on the same query concurrently and
// returns as soon as one gives a definite answer (the others are killed).
// raceSolvers runs the named solvers on file concurrently and returns at the first definite answer.
// A solver named "cvc5" reads cvc5File and is started two seconds late, so that the many queries z3
// answers at once do not spawn it.
func raceSolvers(names []string, file string, timeout int, cvc5File ...string) []SolverResult {
	type res struct {
		i int
		r SolverResult
	}
	ctx, cancel := context.WithCancel(context.Background())
	defer cancel()
	ch := make(chan res, len(names))
	for i, n := range names {
		go func(i int, n string) {
			file := file
			if n == "cvc5" {
				if len(cvc5File) > 0 {
					file = cvc5File[0]
				}
				select {
				case <-ctx.Done():
					ch <- res{i, SolverResult{Solver: n, Result: "cancelled"}}
					return
				case <-time.After(2 * time.Second):
				}
			}
			args := solverCmds[n](file, timeout)
			cctx, ccancel := context.WithTimeout(ctx, time.Duration(timeout+5)*time.Second)
			defer ccancel()
			start := time.Now()
			out, _ := exec.CommandContext(cctx, args[0], args[1:]...).CombinedOutput()
			first := strings.TrimSpace(strings.SplitN(string(out), "\n", 2)[0])
			r := "error"
			switch {
			case first == "unsat" || first == "sat" || first == "unknown":
				r = first
			case ctx.Err() != nil:
				r = "cancelled"
			case strings.Contains(first, "timeout") || cctx.Err() != nil:
				r = "timeout"
			}
			ch <- res{i, SolverResult{Solver: n, Result: r, Secs: time.Since(start).Seconds(), Output: string(out)}}
		}(i, n)
	}
	out := make([]SolverResult, 0, len(names))
	for range names {
		x := <-ch
		out = append(out, x.r)
		if x.r.Result == "unsat" || x.r.Result == "sat" {
			cancel()
			break
		}
	}
	return out
}

// Discharge runs the portfolio on all obligations, in parallel.
func Discharge(obls []*Obligation, dir string, timeout int, thorough bool, jobs int, knownFail func(*Obligation) bool) []*OblResult {
	os.MkdirAll(dir, 0o755)
	results := make([]*OblResult, len(obls))
	// scripts are rendered sequentially (the encoder's caches are not goroutine-safe)
	scripts := make([][2]string, len(obls))
	for i, o := range obls {
		scripts[i][0] = o.Script(false)
		if o.Raw != "" {
			scripts[i][1] = scripts[i][0]
		} else {
			scripts[i][1] = o.Script(true)
		}
	}
	var wg sync.WaitGroup
	sem := make(chan struct{}, jobs)
	for i, o := range obls {
		wg.Add(1)
		go func(i int, o *Obligation) {
			defer wg.Done()
			sem <- struct{}{}
			defer func() { <-sem }()
			base := filepath.Join(dir, fmt.Sprintf("%04d", i))
			f := base + ".smt2"
			os.WriteFile(f, []byte(scripts[i][0]), 0o644)
			r := &OblResult{O: o, File: f, Status: "failed"}
			start := time.Now()
			try := func(s string) bool {
				file := f
				if s == "cvc5" {
					file = base + ".cvc5.smt2"
					os.WriteFile(file, []byte(scripts[i][1]), 0o644)
				}
				to := timeout
				if (s == "z3-new" || s == "cvc5") && !thorough && timeout >= 4 {
					to = timeout / 2
				}
				if thorough && r.Status == "discharged" && to > 20 {
					// second opinions on an obligation that is already discharged: a definite answer that
					// disagrees would count, but they are not given the full thorough timeout
					to = 20
				}
				sr := runSolver(s, file, to)
				r.Attempts = append(r.Attempts, sr)
				if sr.Result == "unsat" {
					if r.By == "" {
						r.By = s
					} else {
						r.By += "+" + s
					}
					r.Status = "discharged"
					return true
				}
				return false
			}
			if knownFail != nil && knownFail(o) {
				// recorded finding: one short attempt (it is expected not to discharge)
				kt := 3
				if thorough {
					kt = 15
				}
				sr := runSolver("z3-new", f, kt)
				r.Attempts = append(r.Attempts, sr)
				if sr.Result == "unsat" {
					r.By, r.Status = "z3-new", "discharged"
				}
			} else {
				// z3 5.1.0 (two strategies) and z3 4.8.12 race; then cvc5
				strategies := []string{"z3-new", "z3-new/as2", "z3"}
				if o.Raw != "" {
					// string-track queries: the legacy-simplex option is not used (it produced a
					// spurious sat on a str.in_re query); a sat answer must replay on the real code anyway
					strategies = []string{"z3-new", "z3"}
				}
				cf := base + ".cvc5.smt2"
				if o.Raw == "" {
					// heap-track queries: cvc5 joins the race (late); some accumulation invariants are
					// decided by cvc5 at once while every z3 configuration runs into the timeout
					os.WriteFile(cf, []byte(scripts[i][1]), 0o644)
					strategies = append(strategies, "cvc5")
				}
				raced := raceSolvers(strategies, f, timeout, cf)
				for _, sr := range raced {
					if sr.Result == "cancelled" && sr.Secs == 0 {
						continue
					}
					r.Attempts = append(r.Attempts, sr)
					if sr.Result == "unsat" {
						r.By, r.Status = sr.Solver, "discharged"
					}
				}
				isDef := false
				for _, sr := range raced {
					if sr.Result == "unsat" || sr.Result == "sat" {
						isDef = true
					}
				}
				if !isDef && o.Raw != "" {
					try("cvc5")
				}
				if thorough && r.Status == "discharged" {
					// every other solver is consulted as well (briefly); a definite answer that disagrees fails the obligation
					all := []string{"z3-new", "z3-new/as2", "z3", "cvc5"}
					if o.Raw != "" {
						all = []string{"z3-new", "z3", "cvc5"}
					}
					for _, sname := range all {
						seen := false
						for _, a := range r.Attempts {
							if a.Solver == sname && (a.Result == "unsat" || a.Result == "sat") {
								seen = true
							}
						}
						if !seen {
							by := r.By
							try(sname)
							r.By = by
						}
					}
					for _, a := range r.Attempts {
						if a.Result == "sat" {
							r.Status = "failed"
						}
					}
				}
			}
			if r.Status != "discharged" && (knownFail == nil || !knownFail(o)) {
				sat := false
				for _, a := range r.Attempts {
					if a.Result == "sat" {
						sat = true
					}
				}
				if !sat {
					if ok, n, by, fp, att := splitDischarge(o, scripts[i][0], base, timeout); n > 0 {
						r.Split = n
						r.FailPath = fp
						r.Attempts = append(r.Attempts, att...)
						if ok {
							r.Status, r.By = "discharged", by
						}
					}
				}
			}
			r.Secs = time.Since(start).Seconds()
			results[i] = r
		}(i, o)
	}
	wg.Wait()
	return results
}
