package main

import (
	"fmt"
	"go/types"
	"strings"

	"golang.org/x/tools/go/ssa"
)

// calleeInfo describes the target of a call instruction.
type calleeInfo struct {
	key    string
	fn     *ssa.Function // static callee (may be external, Blocks == nil)
	sig    *types.Signature
	args   []ssa.Value // receiver first
	spec   *FuncSpec
	inRepo bool
	kind   string // static invoke dynamic builtin
}

func (w *World) resolveCallee(c *ssa.CallCommon) calleeInfo {
	ci := calleeInfo{sig: c.Signature()}
	switch {
	case c.IsInvoke():
		ci.kind = "invoke"
		ci.key = "(" + typeStr(c.Method.Type().(*types.Signature).Recv().Type()) + ")." + c.Method.Name()
		ci.args = append([]ssa.Value{c.Value}, c.Args...)
	case c.StaticCallee() != nil:
		ci.kind = "static"
		ci.fn = c.StaticCallee()
		ci.key = funcKey(ci.fn)
		ci.args = c.Args
		ci.inRepo = ci.fn.Blocks != nil && ci.fn.Pkg != nil && w.repoPkgs[ci.fn.Pkg.Pkg]
		if mc, ok := c.Value.(*ssa.MakeClosure); ok {
			ci.args = append(append([]ssa.Value{}, c.Args...), mc.Bindings...)
		}
	default:
		if b, ok := c.Value.(*ssa.Builtin); ok {
			ci.kind = "builtin"
			ci.key = b.Name()
			ci.args = c.Args
			return ci
		}
		ci.kind = "dynamic"
		ci.key = "functype " + typeStr(c.Value.Type())
		ci.args = append([]ssa.Value{c.Value}, c.Args...)
	}
	ci.spec = w.specs.Funcs[ci.key]
	return ci
}

// paramNames gives the names to bind the args to, when evaluating the callee's spec.
func (ci *calleeInfo) paramNames() []string {
	if ci.spec != nil && len(ci.spec.Params) > 0 {
		return ci.spec.Params
	}
	var names []string
	if ci.fn != nil && ci.fn.Blocks != nil {
		for _, p := range ci.fn.Params {
			names = append(names, p.Name())
		}
		return names
	}
	if ci.kind != "static" || ci.sig.Recv() != nil {
		names = append(names, "recv")
	}
	for i := 0; i < ci.sig.Params().Len(); i++ {
		n := ci.sig.Params().At(i).Name()
		if n == "" || n == "_" {
			n = fmt.Sprintf("arg%d", i)
		}
		names = append(names, n)
	}
	return names
}

func resultNames(sig *types.Signature) []string {
	var out []string
	for i := 0; i < sig.Results().Len(); i++ {
		n := sig.Results().At(i).Name()
		if n == "" || n == "_" {
			n = fmt.Sprintf("result%d", i)
		}
		out = append(out, n)
	}
	return out
}

// bindResults adds result/resultN/named results to env.
func bindResults(env *Env, sig *types.Signature, terms []string) {
	for i, t := range terms {
		st := SType{T: sig.Results().At(i).Type()}
		env.vars[fmt.Sprintf("result%d", i)] = EV{t, st}
		if n := sig.Results().At(i).Name(); n != "" && n != "_" {
			if _, exists := env.vars[n]; !exists {
				env.vars[n] = EV{t, st}
			}
		}
		if i == 0 {
			env.vars["result"] = EV{t, st}
		}
	}
}

func (e *Enc) call(v *ssa.Call, c *ssa.CallCommon) {
	w := e.w
	ci := w.resolveCallee(c)
	if ci.kind == "builtin" {
		e.builtin(v, c, ci)
		return
	}
	var argTerms []string
	for _, a := range ci.args {
		argTerms = append(argTerms, e.val(a))
	}
	// receiver nil checks for invoke / dynamic
	if ci.kind == "invoke" || ci.kind == "dynamic" {
		e.safety("nil-call", fmt.Sprintf("(not (= %s nil))", argTerms[0]))
	}
	if ci.inRepo && ci.fn.Signature.Recv() != nil {
		if _, isPtr := ci.fn.Signature.Recv().Type().Underlying().(*types.Pointer); isPtr {
			e.safety("nil-receiver", fmt.Sprintf("(not (= %s nil))", argTerms[0]))
		}
	}
	names := ci.paramNames()
	env := &Env{e: e, vars: map[string]EV{}}
	for i, n := range names {
		if i < len(ci.args) {
			env.vars[n] = EV{argTerms[i], SType{T: ci.args[i].Type()}}
		}
	}
	pre := map[string]int{}
	for k, ver := range e.cur {
		pre[k] = ver
	}
	label := e.siteLabel()
	env.oldVer = pre // in a precondition old(e) is e

	// at-call assertions of the enclosing function
	if e.spec != nil {
		for _, ac := range e.spec.AtCalls {
			if ac.Pattern != ci.key && !strings.HasSuffix(ci.key, ac.Pattern) {
				continue
			}
			if ac.FromArg != "" {
				ok := false
				for i, an := range ac.Args {
					if an == ac.FromArg && i < len(ci.args) {
						if cv, isCall := ci.args[i].(*ssa.Call); isCall {
							if w.resolveCallee(cv.Common()).key == ac.FromCallee {
								ok = true
							}
						}
					}
				}
				if !ok {
					continue
				}
			}
			aenv := e.fv.siteEnv(e, e.curBlock, e.curIdx)
			for i, an := range ac.Args {
				if i < len(ci.args) {
					aenv.vars[an] = EV{argTerms[i], SType{T: ci.args[i].Type()}}
				}
			}
			for k, cl := range ac.Asserts {
				if !e.pass.Active(cl.Tags) {
					continue
				}
				t, _, err := aenv.elab(cl.E)
				if err != nil {
					e.errorf("at-call %s assert %s: %v", ac.Pattern, cl.Loc(), err)
					continue
				}
				e.oblige("assert", fmt.Sprintf("assert(%s)#%d@%s", ac.Pattern, k, label), t, cl.Tags, cl.Src)
			}
		}
	}

	// preconditions
	if ci.spec != nil {
		for k, cl := range ci.spec.Requires {
			if !e.pass.Active(cl.Tags) {
				continue
			}
			t, _, err := env.elab(cl.E)
			if err != nil {
				e.errorf("requires of %s (%s): %v", ci.key, cl.Loc(), err)
				continue
			}
			e.oblige("pre", fmt.Sprintf("pre(%s)#%d@%s", ci.key, k, label), t, cl.Tags, cl.Src)
		}
	}

	// recursion / termination: decreases of callee == enclosing function
	if ci.fn != nil && ci.fn == e.fn && e.spec != nil && e.spec.Decr != nil && e.pass.Active(e.spec.Decr.Tags) {
		callee, _, err1 := env.elab(e.spec.Decr.E)
		penv := e.fv.paramEnv(e)
		penv.curVer = map[string]int{}
		caller, _, err2 := penv.elab(e.spec.Decr.E)
		if err1 == nil && err2 == nil {
			e.oblige("decreases", "decreases(recursion)@"+label, fmt.Sprintf("(and (>= %s 0) (< %s %s))", caller, callee, caller), e.spec.Decr.Tags, e.spec.Decr.Src)
		}
	} else if ci.fn != nil && ci.fn == e.fn {
		e.oblige("decreases", "decreases(recursion)@"+label, "false", []string{"C14"}, "recursive call without decreases clause")
	}

	// effects ---------------------------------------------------------
	writes, hasMod, modPred := e.calleeEffects(&ci, env)
	// caller frame: whatever the callee may modify must be allowed for the caller
	if e.fv.hasModSpec() {
		var refHeaps []string
		for _, h := range writes {
			if isRefHeap(w.heapSorts[h]) && h != heapAlloc {
				refHeaps = append(refHeaps, h)
			}
		}
		if len(refHeaps) > 0 {
			if !hasMod {
				e.oblige("frame", fmt.Sprintf("frame/call(%s)@%s", ci.key, label), "false", e.fv.modTags(), "callee has no modifies clause")
			} else {
				seen := map[string]bool{}
				for _, h := range refHeaps {
					cm := modPred("r", h)
					if cm == "false" {
						continue
					}
					goal := fmt.Sprintf("(forall ((r Ref)) (=> (and (isalloc %s r) %s) %s))", e.H0(heapAlloc), cm, e.fv.modPred(e, "r", h))
					if seen[goal] {
						continue
					}
					seen[goal] = true
					e.oblige("frame", fmt.Sprintf("frame/call(%s)/%s@%s", ci.key, h, label), goal, e.fv.modTags(), "callee modifies ⊆ caller modifies")
				}
			}
		}
		for _, h := range writes {
			if strings.HasPrefix(h, "G.") {
				e.oblige("frame", fmt.Sprintf("frame/call(%s)/global@%s", ci.key, label), "false", e.fv.modTags(), "callee writes package-level variable "+h)
			}
			if strings.HasPrefix(h, "gh.") && !e.fv.ghostAllowed(h) {
				e.oblige("frame", fmt.Sprintf("frame/call(%s)/ghost@%s", ci.key, label), "false", e.fv.modTags(), "callee writes ghost "+h+" not in caller's modifies")
			}
		}
	}
	allocPre := e.H(heapAlloc)
	for _, h := range writes {
		if strings.HasPrefix(h, "it.") {
			continue
		}
		old := e.H(h)
		nw := e.bump(h)
		if h == heapAlloc {
			e.assume(fmt.Sprintf("(<= %s %s)", old, nw))
			continue
		}
		if hasMod && isRefHeap(w.heapSorts[h]) {
			e.assume(fmt.Sprintf("(forall ((r Ref)) (! (=> (and (isalloc %s r) (not %s)) (= (select %s r) (select %s r))) :pattern ((select %s r))))",
				allocPre, modPred("r", h), nw, old, nw))
		}
	}

	// results -----------------------------------------------------------
	nres := ci.sig.Results().Len()
	var resTerms []string
	for i := 0; i < nres; i++ {
		if nres == 1 {
			resTerms = append(resTerms, e.val(v))
		} else {
			resTerms = append(resTerms, e.tupleVal(v, i))
		}
	}
	pure := (ci.spec != nil && ci.spec.Pure) || (ci.spec == nil && !ci.inRepo && e.valueOnly(&ci))
	if ci.spec == nil && ci.kind == "dynamic" {
		pure = true // T8: callbacks are deterministic functions of their arguments
	}
	if ci.spec == nil && !ci.inRepo {
		w.externals[ci.key] = true
		if e.spec != nil && e.spec.Closed && ci.kind != "dynamic" && !e.valueOnly(&ci) {
			e.oblige("closed", "closed/uncontracted-call("+ci.key+")@"+e.siteLabel(), "false", nil, "the contract of this function is closed: every function it calls must have a contract (functions of plain values - no pointers, slices, maps or interfaces in or out - are exempt: they cannot touch state); "+ci.key+" has none")
		}
	}
	if pure && nres > 0 {
		var sorts []string
		for _, a := range ci.args {
			sorts = append(sorts, w.sortOf(a.Type()))
		}
		for i := 0; i < nres; i++ {
			fname := q(fmt.Sprintf("call:%s", ci.key))
			if nres > 1 {
				fname = q(fmt.Sprintf("call:%s.%d", ci.key, i))
			}
			if ci.kind == "dynamic" {
				fname = q("apply:" + typeStr(ci.args[0].Type().Underlying()))
			}
			e.declareFun(fname, sorts, w.sortOf(ci.sig.Results().At(i).Type()))
			if len(argTerms) == 0 {
				e.assume(fmt.Sprintf("(= %s %s)", resTerms[i], fname))
			} else {
				e.assume(fmt.Sprintf("(= %s (%s %s))", resTerms[i], fname, strings.Join(argTerms, " ")))
			}
		}
	}
	for i := 0; i < nres; i++ {
		e.wfValue(resTerms[i], ci.sig.Results().At(i).Type(), "")
	}
	// behaviour assumptions of the enclosing function attached to this callee
	defer func() {
		if e.spec == nil {
			return
		}
		for _, ac := range e.spec.AtCalls {
			if len(ac.Assumes) == 0 || (ac.Pattern != ci.key && !strings.HasSuffix(ci.key, ac.Pattern)) {
				continue
			}
			aenv := e.fv.siteEnv(e, e.curBlock, e.curIdx)
			aenv.oldVer = pre
			for _, cl := range ac.Assumes {
				if !e.pass.Active(cl.Tags) {
					continue
				}
				t, _, err := aenv.elab(cl.E)
				if err != nil {
					e.errorf("at-call %s assume %s: %v", ac.Pattern, cl.Loc(), err)
					continue
				}
				e.assume(fmt.Sprintf("(=> %s %s)", e.reach[e.curBlock], t))
			}
		}
	}()
	// postconditions
	if ci.spec != nil {
		env.oldVer = pre
		bindResults(env, ci.sig, resTerms)
		for _, sc := range ci.spec.Sets {
			h, err := w.heapGhost(sc.Ghost)
			if err != nil {
				e.errorf("%v", err)
				continue
			}
			t, _, err := env.elab(sc.E)
			if err != nil {
				e.errorf("sets of %s: %v", ci.key, err)
				continue
			}
			e.assume(fmt.Sprintf("(= %s %s)", e.H(h), t))
		}
		reach := e.reach[e.curBlock]
		for _, cl := range ci.spec.Ensures {
			if !e.pass.Active(cl.Tags) {
				continue
			}
			t, _, err := env.elab(cl.E)
			if err != nil {
				e.errorf("ensures of %s (%s): %v", ci.key, cl.Loc(), err)
				continue
			}
			e.assume(fmt.Sprintf("(=> %s %s)", reach, t))
		}
	}
}

// valueOnly: all args and results are plain values (no references): the
// external function is modelled as a deterministic uninterpreted function.
func (e *Enc) valueOnly(ci *calleeInfo) bool {
	ok := func(t types.Type) bool {
		s := e.w.sortOf(t)
		return s == "Int" || s == "Bool" || s == "Str" || s == "Real"
	}
	for _, a := range ci.args {
		if !ok(a.Type()) {
			return false
		}
	}
	for i := 0; i < ci.sig.Results().Len(); i++ {
		if !ok(ci.sig.Results().At(i).Type()) {
			return false
		}
	}
	return true
}

// calleeEffects: which heaps the callee may write, whether it has a modifies
// specification, and its modifies predicate (evaluated in the pre-state).
func (e *Enc) calleeEffects(ci *calleeInfo, env *Env) (writes []string, hasMod bool, modPred func(r, heap string) string) {
	w := e.w
	set := map[string]bool{heapAlloc: true}
	if ci.inRepo {
		for h := range w.writes[ci.fn] {
			set[h] = true
		}
	}
	var preds []*ModClause
	if ci.spec != nil {
		for _, sc := range ci.spec.Sets {
			if h, err := w.heapGhost(sc.Ghost); err == nil {
				set[h] = true
			}
		}
		for _, m := range ci.spec.Modifies {
			switch {
			case m.Nothing:
				hasMod = true
			case len(m.Ghosts) > 0:
				for _, g := range m.Ghosts {
					h, err := w.heapGhost(g)
					if err != nil {
						e.errorf("%v", err)
						continue
					}
					set[h] = true
				}
			case len(m.Heaps) > 0:
				for _, h := range m.Heaps {
					if _, ok := w.heapSorts[h]; !ok {
						e.errorf("modifies heap %s: unknown heap", h)
						continue
					}
					set[h] = true
				}
			case m.Pred != nil || len(m.Objs) > 0:
				hasMod = true
				preds = append(preds, m)
				if m.FieldsOf != "" {
					for _, h := range w.fieldHeapsOf(m.FieldsOf) {
						set[h] = true
					}
				}
			}
		}
		if ci.spec.Assumed && !hasMod {
			// assumed functions modify only what they list
			hasMod = true
		}
	} else if !ci.inRepo {
		hasMod = true // externals without contract: assumed to modify nothing (listed as assumption)
	}
	if ci.inRepo && w.implicitNothing && (ci.spec == nil || len(ci.spec.Modifies) == 0) {
		hasMod = true // checked in the same run (implicit `modifies nothing`)
	}
	// snapshot of pre-state versions for evaluating the predicate
	snap := map[string]int{}
	for k, v := range e.cur {
		snap[k] = v
	}
	modPred = func(r, heap string) string {
		c := &Env{e: e, vars: map[string]EV{}, parent: env, curVer: snap, oldVer: snap}
		return modDisjunction(e, c, preds, r, heap, "modifies of "+ci.key)
	}
	return sortedHeapNames(set), hasMod, modPred
}

func (e *Enc) builtin(v *ssa.Call, c *ssa.CallCommon, ci calleeInfo) {
	w := e.w
	switch ci.key {
	case "len":
		a := c.Args[0]
		switch u := a.Type().Underlying().(type) {
		case *types.Slice:
			e.defVal(v, "(s_len "+e.val(a)+")")
		case *types.Basic:
			e.defVal(v, "(slen "+e.val(a)+")")
		case *types.Map:
			e.defVal(v, e.mapLen(u, e.val(a), e.H(w.heapMapDom(u))))
		case *types.Array:
			e.defVal(v, fmt.Sprint(u.Len()))
		default:
			e.errorf("len of %s", a.Type())
		}
	case "cap":
		f := e.declareFun(q("scap"), []string{"Slice"}, "Int")
		e.defVal(v, fmt.Sprintf("(%s %s)", f, e.val(c.Args[0])))
		e.assume(fmt.Sprintf("(>= %s (s_len %s))", e.val(v), e.val(c.Args[0])))
	case "append":
		e.appendCall(v, c)
	case "delete":
		mt := c.Args[0].Type().Underlying().(*types.Map)
		m, k := e.val(c.Args[0]), e.val(c.Args[1])
		hd := w.heapMapDom(mt)
		// delete on a nil map is a no-op
		e.frameWrite(m, "delete", hd)
		e.setHeap(hd, fmt.Sprintf("(ite (= %s nil) %s (store %s %s (store (select %s %s) %s false)))", m, e.H(hd), e.H(hd), m, e.H(hd), m, k))
	case "print", "println":
	case "ssa:wrapnilchk":
		e.safety("nil-deref", fmt.Sprintf("(not (= %s nil))", e.val(c.Args[0])))
		e.defVal(v, e.val(c.Args[0]))
	default:
		e.errorf("unsupported builtin %s", ci.key)
		e.oblige("unsupported", "unsupported/builtin-"+ci.key+"@"+e.siteLabel(), "false", nil, ci.key)
	}
}

// append(s, t...): modelled as allocate-and-copy (see DESIGN §2.3: sound under
// slice linearity, which the linearity scan checks syntactically).
func (e *Enc) appendCall(v *ssa.Call, c *ssa.CallCommon) {
	w := e.w
	s := e.val(c.Args[0])
	st := v.Type().Underlying().(*types.Slice)
	h := w.heapArr(st.Elem())
	es := w.sortOf(st.Elem())
	old := e.H(h)
	r := e.newRef(q("arr." + v.Name()))
	cont := e.declare(q("cont."+v.Name()), "(Array Int "+es+")")
	// copy of s
	e.assume(fmt.Sprintf("(forall ((i Int)) (! (=> (and (<= 0 i) (< i (s_len %s))) (= (select %s i) (select (select %s (s_arr %s)) (addi (s_off %s) i)))) :pattern ((select %s i))))", s, cont, old, s, s, cont))
	var tlen string
	var varargElems []string
	t := c.Args[1]
	if bt, ok := t.Type().Underlying().(*types.Basic); ok && bt.Info()&types.IsString != 0 {
		// append([]byte, string...)
		tlen = "(slen " + e.val(t) + ")"
	} else if elems, ok := e.varargsElems(t); ok {
		tlen = fmt.Sprint(len(elems))
		for i, el := range elems {
			e.assume(fmt.Sprintf("(= (select %s (+ (s_len %s) %d)) %s)", cont, s, i, el))
		}
		varargElems = elems
	} else {
		tv := e.val(t)
		tlen = "(s_len " + tv + ")"
		e.assume(fmt.Sprintf("(forall ((j Int)) (! (=> (and (<= (s_len %s) j) (< j (+ (s_len %s) (s_len %s)))) (= (select %s j) (select (select %s (s_arr %s)) (addi (s_off %s) (- j (s_len %s)))))) :pattern ((select %s j))))", s, s, tv, cont, old, tv, tv, s, cont))
	}
	e.storeRef(h, r, cont)
	e.defVal(v, fmt.Sprintf("(mk_slice %s 0 (+ (s_len %s) %s))", r, s, tlen))
	// the copied prefix in the shape contracts use for result[i] and s[i], triggered from either side
	{
		rv := e.val(v)
		lhs := fmt.Sprintf("(select (select %s (s_arr %s)) (addi (s_off %s) i))", e.H(h), rv, rv)
		rhs := fmt.Sprintf("(select (select %s (s_arr %s)) (addi (s_off %s) i))", old, s, s)
		e.assume(fmt.Sprintf("(forall ((i Int)) (! (=> (and (<= 0 i) (< i (s_len %s))) (= %s %s)) :pattern (%s) :pattern (%s)))", s, lhs, rhs, lhs, rhs))
	}
	// the appended elements once more, in exactly the shape contracts use for
	// result[len(s)+i] (gives E-matching a trigger term for the new element)
	for i, el := range varargElems {
		rv := e.val(v)
		e.assume(fmt.Sprintf("(= (select (select %s (s_arr %s)) (addi (s_off %s) (+ (s_len %s) %d))) %s)", e.H(h), rv, rv, s, i, el))
	}
}

// varargsElems recognises  t = slice(new [N]T (varargs))[:]  with N constant
// stores and returns the stored element terms.
func (e *Enc) varargsElems(t ssa.Value) ([]string, bool) {
	sl, ok := t.(*ssa.Slice)
	if !ok || sl.Low != nil || sl.High != nil {
		return nil, false
	}
	al, ok := sl.X.(*ssa.Alloc)
	if !ok {
		return nil, false
	}
	at, ok := derefType(al.Type()).Underlying().(*types.Array)
	if !ok || at.Len() > 8 {
		return nil, false
	}
	elems := make([]string, at.Len())
	for _, r := range *al.Referrers() {
		ia, ok := r.(*ssa.IndexAddr)
		if !ok {
			continue
		}
		ic, ok := ia.Index.(*ssa.Const)
		if !ok {
			return nil, false
		}
		idx := int(ic.Int64())
		for _, rr := range *ia.Referrers() {
			if stv, ok := rr.(*ssa.Store); ok && stv.Addr == ia {
				if stv.Block() != al.Block() {
					return nil, false
				}
				elems[idx] = e.val(stv.Val)
			}
		}
	}
	for _, el := range elems {
		if el == "" {
			return nil, false
		}
	}
	return elems, true
}

// ret: postconditions at a return instruction
func (e *Enc) ret(x *ssa.Return) {
	if e.fv.cover {
		e.obls = append(e.obls, &Obligation{Name: "cover/return@" + e.siteLabel(), Fn: funcKey(e.fn), Kind: "cover", Prefix: len(e.asserts),
			Reach: e.reach[e.curBlock], Goal: "false", Src: "vacuity guard: this return must be reachable under the assumptions (expected: NOT unsat)", Pos: e.pos(), enc: e, Block: e.curBlock})
	}
	if e.spec == nil {
		return
	}
	env := e.fv.paramEnv(e)
	var terms []string
	for _, r := range x.Results {
		terms = append(terms, e.val(r))
	}
	bindResults(env, e.fn.Signature, terms)
	env.oldVer = map[string]int{}
	label := e.siteLabel()
	for k, cl := range e.spec.Ensures {
		if !e.pass.Active(cl.Tags) {
			continue
		}
		t, _, err := env.elab(cl.E)
		if err != nil {
			e.errorf("ensures (%s): %v", cl.Loc(), err)
			continue
		}
		e.oblige("post", fmt.Sprintf("post#%d@%s", k, label), t, cl.Tags, cl.Src)
	}
}
