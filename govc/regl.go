package main

// String track: Go regexps -> SMT-LIB RegLan (DESIGN §2.4).

import (
	"encoding/json"
	"fmt"
	"go/constant"
	"os"
	"path/filepath"
	"regexp"
	"regexp/syntax"
	"sort"
	"strings"
	"unicode"

	"golang.org/x/tools/go/packages"
	"golang.org/x/tools/go/ssa"
	"golang.org/x/tools/go/ssa/ssautil"
)

const maxSMTChar = 0x2FFFF

func smtChar(r rune) string {
	if r > maxSMTChar {
		r = maxSMTChar
	}
	if r >= 0x20 && r < 0x7f && r != '"' && r != '\\' {
		return string(r)
	}
	return fmt.Sprintf("\\u{%x}", r)
}

func smtStr(s string) string {
	var sb strings.Builder
	sb.WriteByte('"')
	for _, r := range s {
		if r == '"' {
			sb.WriteString(`""`)
		} else {
			sb.WriteString(smtChar(r))
		}
	}
	sb.WriteByte('"')
	return sb.String()
}

func reRange(lo, hi rune) string {
	if lo > maxSMTChar {
		return "re.none"
	}
	if hi > maxSMTChar {
		hi = maxSMTChar
	}
	if lo == hi {
		return "(str.to_re " + smtStr(string(lo)) + ")"
	}
	return fmt.Sprintf("(re.range %s %s)", smtStr(string(lo)), smtStr(string(hi)))
}

func reUnion(xs []string) string {
	switch len(xs) {
	case 0:
		return "re.none"
	case 1:
		return xs[0]
	}
	return "(re.union " + strings.Join(xs, " ") + ")"
}

func reConcat(xs []string) string {
	var ys []string
	for _, x := range xs {
		if x != `(str.to_re "")` {
			ys = append(ys, x)
		}
	}
	switch len(ys) {
	case 0:
		return `(str.to_re "")`
	case 1:
		return ys[0]
	}
	return "(re.++ " + strings.Join(ys, " ") + ")"
}

const reEps = `(str.to_re "")`

type piece struct {
	b, e bool
	body string
}

type reglErr string

// pieces translates a regexp into alternatives of the form ^? body $?.
func pieces(re *syntax.Regexp) []piece {
	plain := func(s string) []piece { return []piece{{false, false, s}} }
	switch re.Op {
	case syntax.OpNoMatch:
		return plain("re.none")
	case syntax.OpEmptyMatch:
		return plain(reEps)
	case syntax.OpLiteral:
		var parts []string
		for _, r := range re.Rune {
			if re.Flags&syntax.FoldCase != 0 {
				var alts []string
				alts = append(alts, reRange(r, r))
				for f := unicode.SimpleFold(r); f != r; f = unicode.SimpleFold(f) {
					alts = append(alts, reRange(f, f))
				}
				parts = append(parts, reUnion(alts))
			} else {
				parts = append(parts, reRange(r, r))
			}
		}
		return plain(reConcat(parts))
	case syntax.OpCharClass:
		var alts []string
		for i := 0; i+1 < len(re.Rune); i += 2 {
			alts = append(alts, reRange(re.Rune[i], re.Rune[i+1]))
		}
		return plain(reUnion(alts))
	case syntax.OpAnyCharNotNL:
		return plain(`(re.diff re.allchar (str.to_re "\u{a}"))`)
	case syntax.OpAnyChar:
		return plain("re.allchar")
	case syntax.OpBeginText:
		return []piece{{true, false, reEps}}
	case syntax.OpEndText:
		return []piece{{false, true, reEps}}
	case syntax.OpBeginLine, syntax.OpEndLine, syntax.OpWordBoundary, syntax.OpNoWordBoundary:
		panic(reglErr("unsupported-construct: " + re.Op.String()))
	case syntax.OpCapture:
		return pieces(re.Sub[0])
	case syntax.OpStar, syntax.OpPlus, syntax.OpQuest, syntax.OpRepeat:
		sub := pieces(re.Sub[0])
		anch := false
		var bodies []string
		for _, p := range sub {
			if p.b || p.e {
				anch = true
			}
			bodies = append(bodies, p.body)
		}
		if anch {
			if re.Op == syntax.OpQuest {
				return append(sub, piece{false, false, reEps})
			}
			panic(reglErr("unsupported-construct: anchor under repetition"))
		}
		body := reUnion(bodies)
		switch re.Op {
		case syntax.OpStar:
			return plain("(re.* " + body + ")")
		case syntax.OpPlus:
			return plain("(re.+ " + body + ")")
		case syntax.OpQuest:
			return plain("(re.opt " + body + ")")
		default:
			if re.Max < 0 {
				if re.Min == 0 {
					return plain("(re.* " + body + ")")
				}
				return plain(fmt.Sprintf("(re.++ ((_ re.loop %d %d) %s) (re.* %s))", re.Min, re.Min, body, body))
			}
			return plain(fmt.Sprintf("((_ re.loop %d %d) %s)", re.Min, re.Max, body))
		}
	case syntax.OpConcat:
		acc := []piece{{false, false, reEps}}
		for _, s := range re.Sub {
			sp := pieces(s)
			var next []piece
			for _, a := range acc {
				for _, b := range sp {
					x, y := a.body, b.body
					if b.b {
						x = "(re.inter " + x + " " + reEps + ")"
					}
					if a.e {
						y = "(re.inter " + y + " " + reEps + ")"
					}
					next = append(next, piece{a.b || b.b, a.e || b.e, reConcat([]string{x, y})})
				}
			}
			acc = next
			if len(acc) > 64 {
				panic(reglErr("unsupported-construct: too many anchored alternatives"))
			}
		}
		return acc
	case syntax.OpAlternate:
		var out []piece
		for _, s := range re.Sub {
			out = append(out, pieces(s)...)
		}
		// merge unanchored alternatives into one piece
		var plainBodies []string
		var rest []piece
		for _, p := range out {
			if !p.b && !p.e {
				plainBodies = append(plainBodies, p.body)
			} else {
				rest = append(rest, p)
			}
		}
		if len(plainBodies) > 0 {
			rest = append(rest, piece{false, false, reUnion(plainBodies)})
		}
		return rest
	}
	panic(reglErr("unsupported-construct: " + re.Op.String()))
}

// ExactLang: the set of strings matched as a whole by an anchor-free pattern
func ExactLang(pattern string) (lang string, err error) {
	defer func() {
		if r := recover(); r != nil {
			if e, ok := r.(reglErr); ok {
				err = fmt.Errorf("%s", string(e))
				return
			}
			panic(r)
		}
	}()
	re, perr := syntax.Parse(pattern, syntax.Perl)
	if perr != nil {
		return "", perr
	}
	var alts []string
	for _, p := range pieces(re) {
		if p.b || p.e {
			return "", fmt.Errorf("unsupported-construct: anchored pattern in ExactLang")
		}
		alts = append(alts, p.body)
	}
	return reUnion(alts), nil
}

// MatchLang: the set of strings s for which regexp.MatchString(pattern, s) is true.
func MatchLang(pattern string) (lang string, err error) {
	defer func() {
		if r := recover(); r != nil {
			if e, ok := r.(reglErr); ok {
				err = fmt.Errorf("%s", string(e))
				return
			}
			panic(r)
		}
	}()
	re, perr := syntax.Parse(pattern, syntax.Perl)
	if perr != nil {
		return "", perr
	}
	var alts []string
	for _, p := range pieces(re) {
		parts := []string{}
		if !p.b {
			parts = append(parts, "re.all")
		}
		parts = append(parts, p.body)
		if !p.e {
			parts = append(parts, "re.all")
		}
		alts = append(alts, reConcat(parts))
	}
	return reUnion(alts), nil
}

// ---------------------------------------------------------------------
// extraction of regexp literals from the repo (package initialisers)

type RegexpLit struct {
	Pkg, Name, Pattern string
}

func extractRegexps(repo string) (map[string]RegexpLit, error) {
	cfg := &packages.Config{Mode: packages.LoadAllSyntax, Dir: repo, BuildFlags: []string{"-tags=verif"}}
	pkgs, err := packages.Load(cfg, "./...")
	if err != nil {
		return nil, err
	}
	if packages.PrintErrors(pkgs) > 0 {
		return nil, fmt.Errorf("packages contain errors")
	}
	prog, spkgs := ssautil.AllPackages(pkgs, 0)
	prog.Build()
	out := map[string]RegexpLit{}
	for _, sp := range spkgs {
		if sp == nil {
			continue
		}
		init := sp.Func("init")
		if init == nil {
			continue
		}
		for _, b := range init.Blocks {
			for _, in := range b.Instrs {
				st, ok := in.(*ssa.Store)
				if !ok {
					continue
				}
				g, ok := st.Addr.(*ssa.Global)
				if !ok {
					continue
				}
				call, ok := st.Val.(*ssa.Call)
				if !ok || call.Common().StaticCallee() == nil || call.Common().StaticCallee().String() != "regexp.MustCompile" {
					continue
				}
				c, ok := call.Common().Args[0].(*ssa.Const)
				if !ok {
					continue
				}
				out[sp.Pkg.Name()+"."+g.Name()] = RegexpLit{sp.Pkg.Name(), g.Name(), constant.StringVal(c.Value)}
			}
		}
	}
	return out, nil
}

// ---------------------------------------------------------------------
// jobs

type ReglItem struct {
	Name      string   `json:"name"`      // pkg.Var of the regexp under test
	Forbidden string   `json:"forbidden"` // Go regexp (MatchString semantics) of strings that must NOT be accepted
	Allowed   string   `json:"allowed"`   // alternatively: Go regexp of the documented form; obligation L(m) ⊆ L(allowed)
	Examples  []string `json:"examples"`  // documented examples that must be accepted (ground, evaluated)
	Rejects   []string `json:"rejects"`   // strings that must be rejected (ground, evaluated)
	MinLen    int      `json:"min_len"`   // every match (substring matched by the whole pattern) is at least this long
}

type ReglJob struct {
	Forbidden string     `json:"forbidden"` // default for items
	Items     []ReglItem `json:"items"`
	AllOf     string     `json:"all_of_pkg"` // add every regexp of this package with the default forbidden language
	Skip      []string   `json:"skip"`
	Note      string     `json:"note"`
}

func reglScript(lang, other string, inclusion bool) string {
	var sb strings.Builder
	sb.WriteString("(set-option :produce-models true)\n(set-logic QF_SLIA)\n(declare-const s String)\n")
	if inclusion {
		fmt.Fprintf(&sb, "(assert (str.in_re s (re.inter %s (re.comp %s))))\n", lang, other)
	} else {
		fmt.Fprintf(&sb, "(assert (str.in_re s (re.inter %s %s)))\n", lang, other)
	}
	sb.WriteString("(check-sat)\n(get-value (s))\n")
	return sb.String()
}

var modelStrRe = regexp.MustCompile(`\(\(s "((?:[^"]|"")*)"\)\)`)

// decodeSMTString turns the SMT-LIB string literal body into a Go string
func decodeSMTString(s string) string {
	s = strings.ReplaceAll(s, `""`, `"`)
	re := regexp.MustCompile(`\\u\{([0-9a-fA-F]+)\}|\\u([0-9a-fA-F]{4})|\\x([0-9a-fA-F]{2})`)
	return re.ReplaceAllStringFunc(s, func(m string) string {
		sub := re.FindStringSubmatch(m)
		for _, h := range sub[1:] {
			if h != "" {
				var v int
				fmt.Sscanf(h, "%x", &v)
				return string(rune(v))
			}
		}
		return m
	})
}

func reglJob(job, repo, prop string, thorough bool) ([]*Obligation, []string) {
	var errs []string
	specDir := envOr("VERIF_SPECS", "/verif/specs")
	b, err := os.ReadFile(filepath.Join(specDir, "regl", job+".json"))
	if err != nil {
		return nil, []string{err.Error()}
	}
	var j ReglJob
	if err := json.Unmarshal(b, &j); err != nil {
		return nil, []string{job + ".json: " + err.Error()}
	}
	lits, err := extractRegexps(repo)
	if err != nil {
		return nil, []string{err.Error()}
	}
	items := j.Items
	if j.AllOf != "" {
		skip := map[string]bool{}
		for _, s := range j.Skip {
			skip[s] = true
		}
		have := map[string]bool{}
		for _, it := range items {
			have[it.Name] = true
		}
		var names []string
		for k, l := range lits {
			if l.Pkg == j.AllOf && !skip[k] && !have[k] {
				names = append(names, k)
			}
		}
		sort.Strings(names)
		for _, n := range names {
			items = append(items, ReglItem{Name: n})
		}
	}
	var obls []*Obligation
	for _, it := range items {
		lit, ok := lits[it.Name]
		if !ok {
			errs = append(errs, fmt.Sprintf("STALE: regexp %s not found in package initialisers", it.Name))
			continue
		}
		lang, err := MatchLang(lit.Pattern)
		if err != nil {
			obls = append(obls, &Obligation{Name: "regl/" + it.Name + "/translate", Fn: it.Name, Kind: "unsupported", Tags: []string{prop},
				Raw: "(assert true)\n(check-sat)\n", Src: err.Error()})
			continue
		}
		real := regexp.MustCompile(lit.Pattern)
		mk := func(kind, other string, inclusion bool, src string) {
			olang, err := MatchLang(other)
			if err != nil {
				errs = append(errs, fmt.Sprintf("%s: spec language %q: %v", it.Name, other, err))
				return
			}
			otherRe := regexp.MustCompile(other)
			o := &Obligation{Name: "regl/" + it.Name + "/" + kind, Fn: it.Name, Kind: "lang", Tags: []string{prop},
				Raw: reglScript(lang, olang, inclusion), Src: src + "   [pattern: " + lit.Pattern + "]"}
			o.Replay = func(r *OblResult, repo, verifDir string) (string, bool) {
				last := "no solver produced a model"
				for _, a := range r.Attempts {
					if a.Result != "sat" {
						continue
					}
					m := modelStrRe.FindStringSubmatch(a.Output)
					if m == nil {
						continue
					}
					s := decodeSMTString(m[1])
					acc := real.MatchString(s)
					bad := otherRe.MatchString(s)
					if inclusion {
						bad = !bad
					}
					txt := fmt.Sprintf("solver %s model: s = %q\nreal regexp %s (%s).MatchString(s) = %v\nspec language %q: s is %s\n", a.Solver, s, it.Name, lit.Pattern, acc, other,
						map[bool]string{true: "outside the documented form / inside the forbidden set", false: "fine"}[bad])
					if acc && bad {
						return txt, true
					}
					last = txt + "(this model does not replay on the real regexp)\n"
				}
				return last, false
			}
			obls = append(obls, o)
		}
		if it.MinLen > 0 {
			ex, err := ExactLang(lit.Pattern)
			if err != nil {
				errs = append(errs, fmt.Sprintf("%s: %v", it.Name, err))
			} else {
				raw := fmt.Sprintf("(set-option :produce-models true)\n(set-logic QF_SLIA)\n(declare-const s String)\n(assert (str.in_re s %s))\n(assert (< (str.len s) %d))\n(check-sat)\n(get-value (s))\n", ex, it.MinLen)
				o := &Obligation{Name: "regl/" + it.Name + "/minlen", Fn: it.Name, Kind: "lang", Tags: []string{prop}, Raw: raw,
					Src: fmt.Sprintf("every match of %s is at least %d bytes long   [pattern: %s]", it.Name, it.MinLen, lit.Pattern)}
				o.Replay = func(r *OblResult, repo, verifDir string) (string, bool) {
					for _, a := range r.Attempts {
						if m := modelStrRe.FindStringSubmatch(a.Output); a.Result == "sat" && m != nil {
							sv := decodeSMTString(m[1])
							loc := real.FindStringIndex(sv)
							if loc != nil && loc[1]-loc[0] < it.MinLen {
								return fmt.Sprintf("model s = %q: real regexp matches %v (length %d)", sv, loc, loc[1]-loc[0]), true
							}
						}
					}
					return "no replayable model", false
				}
				obls = append(obls, o)
			}
			continue
		}
		forb := it.Forbidden
		if forb == "" && it.Allowed == "" {
			forb = j.Forbidden
		}
		if forb != "" {
			mk("no-forbidden", forb, false, "L("+it.Name+") ∩ Forbidden = ∅, Forbidden = "+forb)
		}
		if it.Allowed != "" {
			mk("within-documented-form", it.Allowed, true, "L("+it.Name+") ⊆ "+it.Allowed)
		}
		for i, ex := range it.Examples {
			ok := real.MatchString(ex)
			raw := "(assert false)\n(check-sat)\n"
			if !ok {
				raw = "(assert true)\n(check-sat)\n"
			}
			obls = append(obls, &Obligation{Name: fmt.Sprintf("regl/%s/example#%d", it.Name, i), Fn: it.Name, Kind: "ground", Tags: []string{prop}, Raw: raw,
				Src: fmt.Sprintf("documented example %q is accepted (evaluated on the real regexp: %v)", ex, ok)})
		}
		for i, ex := range it.Rejects {
			ok := !real.MatchString(ex)
			raw := "(assert false)\n(check-sat)\n"
			if !ok {
				raw = "(assert true)\n(check-sat)\n"
			}
			obls = append(obls, &Obligation{Name: fmt.Sprintf("regl/%s/reject#%d", it.Name, i), Fn: it.Name, Kind: "ground", Tags: []string{prop}, Raw: raw,
				Src: fmt.Sprintf("%q is rejected (evaluated on the real regexp: %v)", ex, ok)})
		}
	}
	return obls, errs
}

func runRegl(args []string, repo string) int {
	if len(args) == 0 {
		lits, err := extractRegexps(repo)
		if err != nil {
			fmt.Fprintln(os.Stderr, err)
			return 2
		}
		for _, k := range sortedKeys(lits) {
			l, err := MatchLang(lits[k].Pattern)
			st := "ok"
			if err != nil {
				st = err.Error()
			}
			fmt.Printf("%-40s %-60q %s (%d bytes)\n", k, lits[k].Pattern, st, len(l))
		}
		return 0
	}
	l, err := MatchLang(args[0])
	fmt.Println(l, err)
	return 0
}
