package main

// Running real css handlers (replay of string-track models, and the bounded
// stand-in for handlers outside the recogniser fragment). Tests are injected
// with `go test -overlay`; nothing is written into the repository.

import (
	"encoding/json"
	"fmt"
	"go/constant"
	"os"
	"os/exec"
	"path/filepath"
	"sort"
	"strconv"
	"strings"

	"golang.org/x/tools/go/ssa"
)

func goTestOverlay(repo, pkgDir, work, fileName, src, run string, env []string) (string, error) {
	os.MkdirAll(work, 0o755)
	testFile := filepath.Join(work, fileName)
	if err := os.WriteFile(testFile, []byte(src), 0o644); err != nil {
		return "", err
	}
	ov := map[string]map[string]string{"Replace": {filepath.Join(repo, pkgDir, fileName): testFile}}
	ob, _ := json.Marshal(ov)
	ovFile := filepath.Join(work, "overlay-"+fileName+".json")
	os.WriteFile(ovFile, ob, 0o644)
	cmd := exec.Command("go", "test", "-overlay", ovFile, "-vet=off", "-count=1", "-timeout", "300s", "-v", "-run", run, ".")
	cmd.Dir = filepath.Join(repo, pkgDir)
	cmd.Env = append(append(os.Environ(), "GOFLAGS=-mod=mod", "GOPROXY=off", "GOSUMDB=off", "GOTOOLCHAIN=local"), env...)
	out, err := cmd.CombinedOutput()
	return string(out), err
}

// runHandler evaluates the real css.<name>(value)
func runHandler(repo, verifDir, name, value string) (string, string) {
	src := fmt.Sprintf("package css\n\nimport (\n\t\"fmt\"\n\t\"testing\"\n)\n\nfunc TestVerifRunHandler(t *testing.T) {\n\tfmt.Println(\"VERIF-RESULT\", %s(%s))\n}\n", name, strconv.Quote(value))
	out, _ := goTestOverlay(repo, "css", filepath.Join(verifDir, "work", "handlers"), "zz_verif_run_test.go", src, "^TestVerifRunHandler$", nil)
	for _, l := range strings.Split(out, "\n") {
		if strings.HasPrefix(l, "VERIF-RESULT ") {
			return strings.TrimPrefix(l, "VERIF-RESULT "), ""
		}
	}
	return "?", out
}

const tierCTest = `package css

import (
	"encoding/json"
	"fmt"
	"os"
	"regexp"
	"testing"
)

type verifTierC struct {
	Forbidden string              ` + "`json:\"forbidden\"`" + `
	MaxTokens int                 ` + "`json:\"max_tokens\"`" + `
	Seps      []string            ` + "`json:\"seps\"`" + `
	Vocab     map[string][]string ` + "`json:\"vocab\"`" + `
	Core      map[string][]string ` + "`json:\"core\"`" + `
	Hostile   []string            ` + "`json:\"hostile\"`" + `
	Deep      int                 ` + "`json:\"deep_tokens\"`" + `
}

var verifHandlers = map[string]func(string) bool{
%s}

func TestVerifTierC(t *testing.T) {
	b, err := os.ReadFile(os.Getenv("VERIF_TIERC"))
	if err != nil {
		t.Fatal(err)
	}
	var cfg verifTierC
	if err := json.Unmarshal(b, &cfg); err != nil {
		t.Fatal(err)
	}
	forb := regexp.MustCompile(cfg.Forbidden)
	type res struct {
		Evaluated int      ` + "`json:\"evaluated\"`" + `
		Accepted  int      ` + "`json:\"accepted\"`" + `
		Bad       []string ` + "`json:\"bad\"`" + `
	}
	out := map[string]*res{}
	for name, h := range verifHandlers {
		voc := cfg.Vocab[name]
		r := &res{}
		out[name] = r
		var rec func(prefix string, n int)
		rec = func(prefix string, n int) {
			for _, tok := range voc {
				var cands []string
				if n == 0 {
					cands = []string{tok}
				} else {
					for _, sep := range cfg.Seps {
						cands = append(cands, prefix+sep+tok)
					}
				}
				for _, v := range cands {
					r.Evaluated++
					if h(v) {
						r.Accepted++
						if forb.MatchString(v) && len(r.Bad) < 5 {
							r.Bad = append(r.Bad, v)
						}
					}
					if n+1 < cfg.MaxTokens {
						rec(v, n+1)
					}
				}
			}
		}
		rec("", 0)
		// deeper pass: sequences of up to cfg.Deep tokens from the core vocabulary with exactly one hostile token
		core := cfg.Core[name]
		var deep func(prefix string, n int, usedHostile bool)
		deep = func(prefix string, n int, usedHostile bool) {
			try := func(tok string, host bool) {
				var cands []string
				if n == 0 {
					cands = []string{tok}
				} else {
					for _, sep := range cfg.Seps {
						cands = append(cands, prefix+sep+tok)
					}
				}
				for _, v := range cands {
					if usedHostile || host {
						r.Evaluated++
						if h(v) {
							r.Accepted++
							if forb.MatchString(v) && len(r.Bad) < 5 {
								r.Bad = append(r.Bad, v)
							}
						}
					}
					if n+1 < cfg.Deep {
						deep(v, n+1, usedHostile || host)
					}
				}
			}
			for _, tok := range core {
				try(tok, false)
			}
			if !usedHostile {
				for _, tok := range cfg.Hostile {
					try(tok, true)
				}
			}
		}
		if cfg.Deep > cfg.MaxTokens {
			deep("", 0, false)
		}
	}
	ob, _ := json.Marshal(out)
	fmt.Println("VERIF-TIERC " + string(ob))
}
`

// stringConsts: string constants occurring in a function's SSA
func stringConsts(fn *ssa.Function) []string {
	seen := map[string]bool{}
	for _, b := range fn.Blocks {
		for _, in := range b.Instrs {
			for _, op := range in.Operands(nil) {
				if c, ok := (*op).(*ssa.Const); ok && c.Value != nil && c.Value.Kind() == constant.String {
					s := constant.StringVal(c.Value)
					if s != "" && len(s) < 40 {
						seen[s] = true
					}
				}
			}
		}
	}
	var out []string
	for s := range seen {
		out = append(out, s)
	}
	sort.Strings(out)
	return out
}

// tierC: bounded-exhaustive run of the real handlers that are outside the
// recogniser fragment (never counted as proved)
func tierC(repo, verifDir, prop, forbidden string, handlers []string, thorough bool) (map[string]interface{}, []string) {
	specDir := envOr("VERIF_SPECS", "/verif/specs")
	w, err := LoadWorld(repo, []string{specDir})
	report := map[string]interface{}{"name": "C18 tier C", "kind": "bounded (NOT counted as proved)", "handlers": handlers}
	if err != nil {
		report["error"] = err.Error()
		return report, nil
	}
	hostile := []string{"url(javascript:x)", "url(x)", "expression(x)", "<", ">", "\\", "@import", "javascript:x", "data:x", "url(", "</style>"}
	samples := []string{"1px", "10%", "0", "1", "#fff", "red", "auto", "none", "1s", "rgb(1,2,3)", "url(http://a/b.png)", "solid", "a", "'a'", "1.5"}
	vocab := map[string][]string{}
	core := map[string][]string{}
	var reg strings.Builder
	for _, k := range handlers {
		fn := w.funcs[k]
		if fn == nil {
			continue
		}
		v := append(append(stringConsts(fn), samples...), hostile...)
		if len(v) > 45 {
			v = append(v[:45-len(hostile)], hostile...)
		}
		vocab[fn.Name()] = v
		c := stringConsts(fn)
		if len(c) > 7 {
			c = c[:7]
		}
		core[fn.Name()] = append(c, "1px", "10%", "auto", "red", "1")
		fmt.Fprintf(&reg, "\t%q: %s,\n", fn.Name(), fn.Name())
	}
	maxTok := 2
	if thorough {
		maxTok = 3
	}
	deepTok := 3
	if thorough {
		deepTok = 4
	}
	cfg := map[string]interface{}{"forbidden": forbidden, "max_tokens": maxTok, "seps": []string{" ", ",", "/", ""}, "vocab": vocab, "core": core, "hostile": hostile, "deep_tokens": deepTok}
	work := filepath.Join(verifDir, "work", "handlers")
	os.MkdirAll(work, 0o755)
	cb, _ := json.Marshal(cfg)
	cfgFile := filepath.Join(work, "tierc.json")
	os.WriteFile(cfgFile, cb, 0o644)
	out, _ := goTestOverlay(repo, "css", work, "zz_verif_tierc_test.go", fmt.Sprintf(tierCTest, reg.String()), "^TestVerifTierC$", []string{"VERIF_TIERC=" + cfgFile})
	var viol []string
	found := false
	for _, l := range strings.Split(out, "\n") {
		if strings.HasPrefix(l, "VERIF-TIERC ") {
			found = true
			var res map[string]struct {
				Evaluated int      `json:"evaluated"`
				Accepted  int      `json:"accepted"`
				Bad       []string `json:"bad"`
			}
			json.Unmarshal([]byte(strings.TrimPrefix(l, "VERIF-TIERC ")), &res)
			report["bound"] = fmt.Sprintf("all values of at most %d tokens from (string constants of the handler ∪ sample values ∪ hostile fragments) glued by ' ', ',', '/', ''; plus all values of at most %d tokens from a core vocabulary (first string constants of the handler, 1px, 10%%, auto, red, 1) containing exactly one hostile fragment", maxTok, deepTok)
			report["results"] = res
			total := 0
			for name, r := range res {
				total += r.Evaluated
				for _, b := range r.Bad {
					f := filepath.Join(verifDir, "work", "replay", fmt.Sprintf("%s-tierC-%s.txt", prop, name))
					os.WriteFile(f, []byte(fmt.Sprintf("bounded stand-in (tier C): the real css.%s accepts %q, which matches the forbidden language\n%s\n", name, b, forbidden)), 0o644)
					viol = append(viol, fmt.Sprintf("VIOLATION property=%s replay=%s obligation=%q", prop, f, "bounded:css."+name))
					break
				}
			}
			report["evaluations"] = total
		}
	}
	if !found {
		report["error"] = "tier C run produced no result:\n" + out
	}
	return report, viol
}
