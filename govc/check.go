package main

// `govc check <property> [--tier quick|thorough]`: the per-property entry
// point registered in MANIFEST.json.

import (
	"encoding/json"
	"fmt"
	"os"
	"path/filepath"
	"sort"
	"strconv"
	"strings"
	"time"
)

type RunSpec struct {
	Fn  []string `json:"fn"`  // function keys ("*" = all repo functions); exact match unless it ends with "*"
	Beh string   `json:"beh"` // behaviour
	As  string   `json:"as"`  // verify the clauses tagged with this property instead (a theorem the property composes with)
}

type PropSpec struct {
	Title                   string    `json:"title"`
	Runs                    []RunSpec `json:"runs"`
	StringTrack             []string  `json:"string_track"` // names of string-track jobs (regl)
	Ground                  []string  `json:"ground"`       // ground jobs (facts established by executing the input-free real code)
	Bounded                 []string  `json:"bounded"`      // names of bounded stand-ins
	Trusted                 []string  `json:"trusted_base"`
	Assumptions             []string  `json:"assumptions"`
	NotDecided              []string  `json:"not_decided"`
	Timeout                 int       `json:"timeout"`
	MinObls                 int       `json:"min_obligations"` // vacuity guard: fewer obligations than this is an error
	Replay                  string    `json:"replay"`          // name of the replay oracle (replay/<name>)
	ImplicitModifiesNothing bool      `json:"implicit_modifies_nothing"`
}

type KnownFinding struct {
	Property   string `json:"property"`
	Obligation string `json:"obligation"` // "<fn> :: <name>" (prefix match allowed with trailing *)
	What       string `json:"what"`
	Input      string `json:"input"`
}

type KnownFile struct {
	Known []KnownFinding `json:"known"`
	Fixed []string       `json:"fixed"`
}

func loadKnown(path string) KnownFile {
	var k KnownFile
	b, err := os.ReadFile(path)
	if err == nil {
		json.Unmarshal(b, &k)
	}
	return k
}

func (k KnownFile) match(prop, obl string) *KnownFinding {
	for i := range k.Known {
		f := &k.Known[i]
		if f.Property != prop {
			continue
		}
		if f.Obligation == obl || (strings.HasSuffix(f.Obligation, "*") && strings.HasPrefix(obl, strings.TrimSuffix(f.Obligation, "*"))) {
			return f
		}
	}
	return nil
}

func matchFn(pats []string, key string) bool {
	for _, p := range pats {
		if strings.HasPrefix(p, "!") && matchFn([]string{p[1:]}, key) {
			return false
		}
	}
	for _, p := range pats {
		if strings.HasPrefix(p, "!") {
			continue
		}
		if p == "*" || p == key {
			return true
		}
		if strings.HasSuffix(p, "*") && strings.HasPrefix(key, strings.TrimSuffix(p, "*")) {
			return true
		}
	}
	return false
}

func runCheck(args []string, repo, specs, tier string, jobs int, verbose bool) int {
	if len(args) < 1 {
		fmt.Fprintln(os.Stderr, "usage: govc check [flags] <property>")
		return 2
	}
	prop := args[0]
	start := time.Now()
	verifDir := filepath.Dir(specs)
	seed, _ := strconv.Atoi(os.Getenv("VERIF_SEED"))
	var props map[string]*PropSpec
	b, err := os.ReadFile(filepath.Join(specs, "props.json"))
	if err != nil {
		fmt.Fprintln(os.Stderr, err)
		return 2
	}
	if err := json.Unmarshal(b, &props); err != nil {
		fmt.Fprintln(os.Stderr, "props.json:", err)
		return 2
	}
	ps, ok := props[prop]
	if !ok {
		fmt.Fprintln(os.Stderr, "unknown property", prop)
		return 2
	}
	known := loadKnown(filepath.Join(verifDir, "known_findings.json"))
	thorough := tier == "thorough"
	timeout := ps.Timeout
	if timeout == 0 {
		timeout = 10
	}
	if thorough {
		timeout *= 6
	}
	work := filepath.Join(verifDir, "work", prop)
	os.RemoveAll(work)
	if old, _ := filepath.Glob(filepath.Join(verifDir, "work", "replay", prop+"-*")); old != nil {
		for _, f := range old {
			os.Remove(f)
		}
	}
	os.MkdirAll(work, 0o755)

	var all []*Obligation
	var errs []string
	funcsUnderContract := map[string]bool{}
	var externals []string
	if len(ps.Runs) > 0 {
		w, err := LoadWorld(repo, []string{specs})
		if err != nil {
			fmt.Fprintln(os.Stderr, "load:", err)
			return 2
		}
		w.computeWrites()
		w.implicitNothing = ps.ImplicitModifiesNothing
		for _, run := range ps.Runs {
			pass := Pass{Prop: prop, Beh: run.Beh}
			if run.As != "" {
				pass.Prop = run.As
			}
			matched := 0
			for _, fn := range w.funcList {
				if !matchFn(run.Fn, funcKey(fn)) {
					continue
				}
				matched++
				fv := NewFuncVerifier(w, fn, pass)
				fv.Run()
				for _, o := range fv.obls {
					if run.Beh != "" {
						o.Name = o.Name + "[" + run.Beh + "]"
					}
					if run.As != "" {
						o.Name = o.Name + "{" + run.As + "}"
						o.As = run.As
					}
				}
				all = append(all, fv.obls...)
				if fv.spec != nil {
					funcsUnderContract[funcKey(fn)] = true
				}
				for _, e := range fv.errs {
					errs = append(errs, funcKey(fn)+": "+e)
				}
				for _, wmsg := range fv.warns {
					fmt.Println("WARNING:", wmsg)
				}
			}
			if matched == 0 {
				errs = append(errs, fmt.Sprintf("STALE: run %v matches no function", run.Fn))
			}
		}
		// contract keys that name no function
		for k, fsx := range w.specs.Funcs {
			if !fsx.Assumed && w.funcs[k] == nil {
				errs = append(errs, "STALE: contract for unknown function "+k)
			}
		}
		externals = sortedKeys(w.externals)
	}
	for _, job := range ps.Ground {
		obls, es := groundJob(job, repo, verifDir, prop)
		all = append(all, obls...)
		errs = append(errs, es...)
	}
	var outsideFragment []string
	for _, job := range ps.StringTrack {
		if job == "C18B" {
			var j ReglJob
			if b, err := os.ReadFile(filepath.Join(specs, "regl", "C18A.json")); err == nil {
				json.Unmarshal(b, &j)
			}
			obls, es, outside := tierBJob(repo, verifDir, prop, j.Forbidden)
			all = append(all, obls...)
			errs = append(errs, es...)
			outsideFragment = outside
			continue
		}
		obls, es := reglJob(job, repo, prop, thorough)
		all = append(all, obls...)
		errs = append(errs, es...)
	}
	if len(errs) > 0 {
		for _, e := range errs {
			fmt.Println("ERROR:", e)
		}
		stale := false
		for _, e := range errs {
			if strings.Contains(e, "STALE") {
				stale = true
			}
		}
		if stale {
			// The contracts name loops, statements or functions that the code no longer has: the
			// obligations they carry cannot be generated, so the property is not established for this
			// tree. Reported as undischarged obligations (below), not as an infrastructure error.
			fmt.Println("NOTE: some contracts no longer match the code; their obligations are reported as not discharged")
		}
	}

	matchKnown := func(o *Obligation) *KnownFinding {
		if kf := known.match(prop, o.Fn+" :: "+o.Name); kf != nil {
			return kf
		}
		if o.As != "" {
			// an obligation of a theorem this property composes with: its findings are recorded under that property
			return known.match(o.As, o.Fn+" :: "+strings.TrimSuffix(o.Name, "{"+o.As+"}"))
		}
		return nil
	}
	results := Discharge(all, work, timeout, thorough, jobs, func(o *Obligation) bool { return matchKnown(o) != nil })

	// bounded stand-ins (never counted as proved)
	var boundedReports []map[string]interface{}
	boundedViol := []string{}
	var boundedKnown []string
	for _, bname := range ps.Bounded {
		if bname == "C18C" {
			var j ReglJob
			if b, err := os.ReadFile(filepath.Join(specs, "regl", "C18A.json")); err == nil {
				json.Unmarshal(b, &j)
			}
			var hs []string
			for _, o := range outsideFragment {
				hs = append(hs, strings.SplitN(o, ":", 2)[0])
			}
			rep, viol := tierC(repo, verifDir, prop, j.Forbidden, hs, thorough)
			rep["outside_fragment"] = outsideFragment
			boundedReports = append(boundedReports, rep)
			boundedViol = append(boundedViol, viol...)
			continue
		}
		rep, bfs := runBounded(bname, repo, verifDir, prop, thorough, seed)
		boundedReports = append(boundedReports, rep)
		for _, bf := range bfs {
			if kf := known.match(prop, "bounded :: "+bf.Name); kf != nil {
				boundedKnown = append(boundedKnown, "bounded :: "+bf.Name)
				fmt.Printf("KNOWN-FINDING: property=%s bounded :: %s — %s (input: %s)\n", prop, bf.Name, kf.What, kf.Input)
				continue
			}
			os.MkdirAll(filepath.Join(verifDir, "work", "replay"), 0o755)
			f := filepath.Join(verifDir, "work", "replay", fmt.Sprintf("%s-%s.txt", prop, strings.ReplaceAll(bf.Name, "/", "-")))
			os.WriteFile(f, []byte(bf.Replay), 0o644)
			boundedViol = append(boundedViol, fmt.Sprintf("VIOLATION property=%s replay=%s obligation=%q", prop, f, "bounded :: "+bf.Name))
		}
	}

	nDis, nKnown, nViol, nDelegated := 0, 0, 0, 0
	bySolver := map[string]int{}
	solverSecs := 0.0
	var samples []interface{}
	var knownHit []string
	var violLines []string
	replayDir := filepath.Join(verifDir, "work", "replay")
	os.MkdirAll(replayDir, 0o755)
	sort.SliceStable(results, func(i, j int) bool { return results[i].O.Fn+results[i].O.Name < results[j].O.Fn+results[j].O.Name })
	for _, r := range results {
		for _, a := range r.Attempts {
			solverSecs += a.Secs
		}
		full := r.O.Fn + " :: " + r.O.Name
		if r.Status == "discharged" {
			nDis++
			bySolver[r.By]++
			if len(samples) < 12 {
				samples = append(samples, map[string]interface{}{"obligation": full, "kind": r.O.Kind, "source": r.O.Src, "by": r.By, "secs": round3(r.Secs), "smt2": r.File})
			}
			if verbose {
				fmt.Printf("ok   %s  by %s %.2fs\n", full, r.By, r.Secs)
			}
			continue
		}
		if kf := matchKnown(r.O); kf != nil {
			nKnown++
			knownHit = append(knownHit, full)
			if kf.Property != prop {
				// a finding of a theorem this property composes with, recorded (and reported) under that property
				nKnown--
				nDelegated++
				fmt.Printf("NOTE: %s is not discharged; it is the known finding of %s recorded in known_findings.json (reported by ./check %s)\n", full, kf.Property, kf.Property)
				continue
			}
			fmt.Printf("KNOWN-FINDING: property=%s %s — %s (input: %s)\n", prop, full, kf.What, kf.Input)
			continue
		}
		nViol++
		rp := writeReplay(replayDir, prop, nViol, r, repo, verifDir, ps)
		violLines = append(violLines, rp)
	}
	for _, e := range errs {
		// unsupported constructs etc.: conservative — a failed obligation without input
		nViol++
		f := filepath.Join(replayDir, fmt.Sprintf("%s-err-%d.txt", prop, nViol))
		os.WriteFile(f, []byte("obligation could not be generated (construct outside the verified subset, or a contract that no longer matches the code it annotates):\n"+e+"\n"), 0o644)
		violLines = append(violLines, fmt.Sprintf("VIOLATION property=%s replay=%s obligation=%q no-failing-input-found", prop, f, "contract-mismatch: "+firstLine(e)))
	}
	for _, v := range boundedViol {
		nViol++
		violLines = append(violLines, v)
	}
	total := len(results)
	if total < ps.MinObls {
		nViol++
		f := filepath.Join(replayDir, fmt.Sprintf("%s-vacuity.txt", prop))
		os.WriteFile(f, []byte(fmt.Sprintf("vacuity guard: %d obligations generated, expected at least %d\n", total, ps.MinObls)), 0o644)
		violLines = append(violLines, fmt.Sprintf("VIOLATION property=%s replay=%s obligation=vacuity-guard no-failing-input-found", prop, f))
	}

	// evidence
	var fns []string
	for k := range funcsUnderContract {
		fns = append(fns, k)
	}
	sort.Strings(fns)
	assumptions := append([]string{}, ps.Assumptions...)
	assumptions = append(assumptions,
		"machine integers are treated as mathematical integers (no overflow obligations)",
		"append is modelled as allocate-and-copy (sound under slice linearity: the appended-to slice value is not used afterwards)",
		"pointer receivers of repo methods are non-nil; this is checked at every internal call site",
		"string contents are opaque on the heap track: only the facts in specs/strings.axioms and the prelude (len of concat/substring, literal lengths, literal distinctness) are used")
	for _, x := range externals {
		assumptions = append(assumptions, "external function without contract, modelled as a pure deterministic function / no heap effect: "+x)
	}
	for _, nd := range ps.NotDecided {
		assumptions = append(assumptions, "NOT DECIDED by this check: "+nd)
	}
	ev := map[string]interface{}{
		"property_id": prop,
		"tier":        tier,
		"seed":        seed,
		"level":       "proof",
		"coverage": map[string]interface{}{
			"obligations": total - nKnown - nDelegated,
			"undischarged_recorded_under_other_property": nDelegated,
			"discharged":                nDis,
			"known_finding_obligations": nKnown,
			"known_findings_hit":        append(knownHit, boundedKnown...),
			"checker_cmd":               fmt.Sprintf("/verif/bin/govc check --tier %s %s  (SMT-LIB queries under %s; solvers: z3-new 5.1.0, z3 4.8.12, cvc5 1.0.3; per-solver timeout %ds)", tier, prop, work, timeout),
			"trusted_base":              ps.Trusted,
			"functions_under_contract":  fns,
			"discharged_by_backend":     bySolver,
			"solver_time_s":             round3(solverSecs),
			"samples":                   samples,
			"bounded_standins":          boundedReports,
			"explanation":               "each obligation is one SMT-LIB query generated from the go/ssa form of /repo's current working tree and the contracts in /repo/**/contracts_verif.go and /verif/specs; discharged = unsat from at least one solver (thorough: every solver consulted, none may answer sat)",
		},
		"assumptions": assumptions,
		"wall_s":      round3(time.Since(start).Seconds()),
		"violations":  nViol,
	}
	evDir := filepath.Join(verifDir, "evidence")
	if os.Getenv("VERIF_NO_EVIDENCE") != "" {
		evDir = filepath.Join(verifDir, "work", "evidence-selftest") // must-fail runs do not touch the evidence files
	}
	os.MkdirAll(evDir, 0o755)
	eb, _ := json.MarshalIndent(ev, "", " ")
	os.WriteFile(filepath.Join(evDir, prop+".json"), eb, 0o644)

	// disk: keep the queries of undischarged obligations and of the samples named in the evidence,
	// drop the rest (a run writes several thousand SMT-LIB files)
	if os.Getenv("VERIF_KEEP_QUERIES") == "" {
		keep := map[string]bool{}
		for _, sm := range samples {
			if m, ok := sm.(map[string]interface{}); ok {
				if f, ok := m["smt2"].(string); ok {
					keep[strings.TrimSuffix(f, ".smt2")] = true
				}
			}
		}
		for _, r := range results {
			if r.Status != "discharged" {
				keep[strings.TrimSuffix(r.File, ".smt2")] = true
			}
		}
		if ents, err := os.ReadDir(work); err == nil {
			for _, en := range ents {
				n := en.Name()
				if !strings.HasSuffix(n, ".smt2") {
					continue
				}
				base := filepath.Join(work, n)
				if i := strings.Index(n, "."); i > 0 {
					base = filepath.Join(work, n[:i])
				}
				if !keep[base] {
					os.Remove(filepath.Join(work, n))
				}
			}
		}
	}

	fmt.Printf("%s: %d obligations, %d discharged, %d known findings, %d violations (%.1fs)\n", prop, total, nDis, nKnown+len(boundedKnown), nViol, time.Since(start).Seconds())
	for _, l := range violLines {
		fmt.Println(l)
	}
	if nViol > 0 {
		return 1
	}
	return 0
}

func round3(f float64) float64 { return float64(int(f*1000)) / 1000 }

// writeReplay writes the replay file of a failed obligation and returns the VIOLATION line.
func writeReplay(dir, prop string, n int, r *OblResult, repo, verifDir string, ps *PropSpec) string {
	f := filepath.Join(dir, fmt.Sprintf("%s-%d.txt", prop, n))
	var sb strings.Builder
	fmt.Fprintf(&sb, "property: %s\nobligation: %s :: %s\nkind: %s\nsource clause: %s\nposition: %s\nsmt2: %s\n\n", prop, r.O.Fn, r.O.Name, r.O.Kind, r.O.Src, r.O.Pos, r.File)
	model := ""
	for _, a := range r.Attempts {
		fmt.Fprintf(&sb, "--- %s: %s (%.1fs)\n", a.Solver, a.Result, a.Secs)
		out := a.Output
		if len(out) > 20000 {
			out = out[:20000] + "\n...[truncated]"
		}
		sb.WriteString(out + "\n")
		if a.Result == "sat" && model == "" {
			model = a.Output
		}
	}
	suffix := " no-failing-input-found"
	if r.O.Replay != nil {
		if txt, ok := r.O.Replay(r, repo, verifDir); ok {
			sb.WriteString("\n=== replay on the real code: FAILING INPUT CONFIRMED ===\n" + txt + "\n")
			suffix = ""
		} else {
			sb.WriteString("\n=== replay on the real code: no failing input found ===\n" + txt + "\n")
		}
	} else if ps.Replay != "" {
		if txt, ok := runOracle(ps.Replay, repo, verifDir, prop); ok {
			sb.WriteString("\n=== guided enumeration on the real code: FAILING INPUT FOUND ===\n" + txt + "\n")
			suffix = ""
		} else {
			sb.WriteString("\n=== guided enumeration on the real code: no failing input found ===\n" + txt + "\n")
		}
	}
	os.WriteFile(f, []byte(sb.String()), 0o644)
	return fmt.Sprintf("VIOLATION property=%s replay=%s obligation=%q%s", prop, f, r.O.Fn+" :: "+r.O.Name, suffix)
}

func firstLine(s string) string {
	if i := strings.IndexByte(s, '\n'); i >= 0 {
		s = s[:i]
	}
	if len(s) > 160 {
		s = s[:160]
	}
	return s
}
