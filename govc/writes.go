package main

import (
	"go/types"
	"os"
	"strings"
	"sync"

	"golang.org/x/tools/go/ssa"
)

var (
	fileCache   = map[string]string{}
	fileCacheMu sync.Mutex
)

func readFileCached(name string) string {
	fileCacheMu.Lock()
	defer fileCacheMu.Unlock()
	if s, ok := fileCache[name]; ok {
		return s
	}
	b, _ := os.ReadFile(name)
	fileCache[name] = string(b)
	return string(b)
}

// computeWrites: per repo function, the set of heap names it may write
// (transitively through repo callees; assumed callees contribute what their
// modifies clauses list).
func (w *World) computeWrites() {
	direct := map[*ssa.Function]map[string]bool{}
	calls := map[*ssa.Function][]*ssa.Function{}
	for _, fn := range w.funcList {
		set := map[string]bool{}
		fv := &FuncVerifier{w: w, fn: fn, siteLabels: map[ssa.Instruction]string{}}
		e := fv.newEnc("writes")
		for _, b := range fn.Blocks {
			for _, in := range b.Instrs {
				for _, h := range instrWrites(w, e, in) {
					set[h] = true
				}
				if x, ok := in.(*ssa.Call); ok {
					ci := w.resolveCallee(x.Common())
					if ci.inRepo {
						calls[fn] = append(calls[fn], ci.fn)
					}
				}
			}
		}
		direct[fn] = set
	}
	for _, fn := range w.funcList {
		w.writes[fn] = map[string]bool{}
		for h := range direct[fn] {
			w.writes[fn][h] = true
		}
	}
	for changed := true; changed; {
		changed = false
		for _, fn := range w.funcList {
			for _, c := range calls[fn] {
				for h := range w.writes[c] {
					if strings.HasPrefix(h, "it.") {
						continue
					}
					if !w.writes[fn][h] {
						w.writes[fn][h] = true
						changed = true
					}
				}
			}
		}
	}
}

// instrWrites: heaps directly written by one instruction (for calls: the
// callee's transitive set if already computed, plus what its contract lists).
func instrWrites(w *World, e *Enc, in ssa.Instruction) []string {
	set := map[string]bool{}
	switch x := in.(type) {
	case *ssa.Store:
		for _, h := range e.ptrOf(x.Addr).heaps(w) {
			set[h] = true
		}
	case *ssa.MapUpdate:
		mt := x.Map.Type().Underlying().(*types.Map)
		set[w.heapMapDom(mt)] = true
		set[w.heapMapVal(mt)] = true
	case *ssa.Alloc:
		set[heapAlloc] = true
		et := derefType(x.Type())
		switch u := et.Underlying().(type) {
		case *types.Struct:
			for i := 0; i < u.NumFields(); i++ {
				set[w.heapField(et, i)] = true
			}
		case *types.Array:
			set[w.heapArr(u.Elem())] = true
		default:
			set[w.heapCell(et)] = true
		}
	case *ssa.MakeMap:
		set[heapAlloc] = true
		mt := x.Type().Underlying().(*types.Map)
		set[w.heapMapDom(mt)] = true
		w.heapMapVal(mt)
	case *ssa.MakeSlice:
		set[heapAlloc] = true
		set[w.heapArr(x.Type().Underlying().(*types.Slice).Elem())] = true
	case *ssa.MakeClosure:
		set[heapAlloc] = true
	case *ssa.Convert:
		if st, ok := x.Type().Underlying().(*types.Slice); ok {
			set[heapAlloc] = true
			set[w.heapArr(st.Elem())] = true
		}
	case *ssa.Range:
		set[e.iterHeap(x)] = true
	case *ssa.Next:
		set[e.iterHeap(x.Iter.(*ssa.Range))] = true
	case *ssa.Call:
		ci := w.resolveCallee(x.Common())
		set[heapAlloc] = true
		switch {
		case ci.kind == "builtin":
			switch ci.key {
			case "append":
				set[w.heapArr(x.Type().Underlying().(*types.Slice).Elem())] = true
			case "delete":
				mt := x.Common().Args[0].Type().Underlying().(*types.Map)
				set[w.heapMapDom(mt)] = true
			}
		case ci.inRepo:
			for h := range w.writes[ci.fn] {
				if !strings.HasPrefix(h, "it.") {
					set[h] = true
				}
			}
		}
		if ci.spec != nil {
			for _, sc := range ci.spec.Sets {
				if h, err := w.heapGhost(sc.Ghost); err == nil {
					set[h] = true
				}
			}
			for _, m := range ci.spec.Modifies {
				if m.FieldsOf != "" {
					for _, h := range w.fieldHeapsOf(m.FieldsOf) {
						set[h] = true
					}
				}
				for _, g := range m.Ghosts {
					if h, err := w.heapGhost(g); err == nil {
						set[h] = true
					}
				}
				for _, h := range m.Heaps {
					set[h] = true
				}
			}
		}
	}
	return sortedHeapNames(set)
}

// fieldHeapsOf: all field heaps of a named struct type given as pkg.T
func (w *World) fieldHeapsOf(tn string) []string {
	t, err := w.parseGoType(tn)
	if err != nil {
		return nil
	}
	st, ok := t.Underlying().(*types.Struct)
	if !ok {
		return nil
	}
	var out []string
	for i := 0; i < st.NumFields(); i++ {
		out = append(out, w.heapField(t, i))
	}
	return out
}
