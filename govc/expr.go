package main

// Spec expression language: lexer + Pratt parser.
//
//   e ::= e <==> e | e ==> e | e || e | e && e | !e | e (==|!=|<|<=|>|>=) e
//       | e in e | e + e | e - e | e * e | -e | e.f | e[e] | f(e,...) | old(e)
//       | forall x T, y U :: e | exists x T :: e | ident | int | "str" | `str`
//       | true | false | nil | (e)

import (
	"fmt"
	"strconv"
	"strings"
	"unicode"
)

type Expr interface{}

type (
	EVar  struct{ Name string }
	EInt  struct{ V string }
	EStr  struct{ V string }
	EBool struct{ V bool }
	ENil  struct{}
	EUn   struct {
		Op string
		X  Expr
	}
	EBin struct {
		Op   string
		L, R Expr
	}
	ECall struct {
		Fn   string
		Args []Expr
	}
	EField struct {
		X    Expr
		Name string
	}
	EIndex struct{ X, I Expr }
	QVar   struct{ Name, Type string }
	EQuant struct {
		Forall bool
		Vars   []QVar
		Body   Expr
	}
)

type tok struct {
	kind string // id int str op eof
	text string
	pos  int
}

type lexer struct {
	src  string
	toks []tok
	p    int
}

var ops3 = []string{"<==>", "==>", "::", "&&", "||", "==", "!=", "<=", ">="}

func lex(src string) ([]tok, error) {
	var toks []tok
	i := 0
	for i < len(src) {
		c := src[i]
		if c == ' ' || c == '\t' || c == '\n' || c == '\r' {
			i++
			continue
		}
		if unicode.IsLetter(rune(c)) || c == '_' || c == '$' {
			j := i + 1
			for j < len(src) && (unicode.IsLetter(rune(src[j])) || unicode.IsDigit(rune(src[j])) || src[j] == '_' || src[j] == '$') {
				j++
			}
			toks = append(toks, tok{"id", src[i:j], i})
			i = j
			continue
		}
		if unicode.IsDigit(rune(c)) {
			j := i + 1
			for j < len(src) && unicode.IsDigit(rune(src[j])) {
				j++
			}
			toks = append(toks, tok{"int", src[i:j], i})
			i = j
			continue
		}
		if c == '"' {
			j := i + 1
			for j < len(src) && src[j] != '"' {
				if src[j] == '\\' {
					j++
				}
				j++
			}
			if j >= len(src) {
				return nil, fmt.Errorf("unterminated string at %d", i)
			}
			s, err := strconv.Unquote(src[i : j+1])
			if err != nil {
				return nil, fmt.Errorf("bad string %s: %v", src[i:j+1], err)
			}
			toks = append(toks, tok{"str", s, i})
			i = j + 1
			continue
		}
		if c == '`' {
			j := strings.IndexByte(src[i+1:], '`')
			if j < 0 {
				return nil, fmt.Errorf("unterminated raw string at %d", i)
			}
			toks = append(toks, tok{"str", src[i+1 : i+1+j], i})
			i = i + j + 2
			continue
		}
		matched := false
		for _, o := range ops3 {
			if strings.HasPrefix(src[i:], o) {
				toks = append(toks, tok{"op", o, i})
				i += len(o)
				matched = true
				break
			}
		}
		if matched {
			continue
		}
		if strings.ContainsRune("()[]{},.<>+-*/%!:=|", rune(c)) {
			toks = append(toks, tok{"op", string(c), i})
			i++
			continue
		}
		return nil, fmt.Errorf("unexpected character %q at %d in %q", c, i, src)
	}
	toks = append(toks, tok{"eof", "", len(src)})
	return toks, nil
}

func ParseExpr(src string) (e Expr, err error) {
	toks, err := lex(src)
	if err != nil {
		return nil, err
	}
	lx := &lexer{src: src, toks: toks}
	defer func() {
		if r := recover(); r != nil {
			if pe, ok := r.(parseErr); ok {
				err = fmt.Errorf("%s (in %q)", string(pe), src)
				return
			}
			panic(r)
		}
	}()
	e = lx.parse(0)
	if lx.peek().kind != "eof" {
		lx.fail("trailing input at %q", lx.peek().text)
	}
	return e, nil
}

type parseErr string

func (l *lexer) fail(f string, a ...interface{}) { panic(parseErr(fmt.Sprintf(f, a...))) }
func (l *lexer) peek() tok                       { return l.toks[l.p] }
func (l *lexer) next() tok                       { t := l.toks[l.p]; l.p++; return t }
func (l *lexer) isOp(s string) bool              { t := l.peek(); return t.kind == "op" && t.text == s }
func (l *lexer) isID(s string) bool              { t := l.peek(); return t.kind == "id" && t.text == s }
func (l *lexer) expect(s string) {
	t := l.next()
	if t.text != s {
		l.fail("expected %q, got %q at %d", s, t.text, t.pos)
	}
}

// binding powers
func binPrec(t tok) (int, bool) {
	if t.kind == "id" && t.text == "in" {
		return 5, false
	}
	if t.kind != "op" {
		return -1, false
	}
	switch t.text {
	case "<==>":
		return 1, false
	case "==>":
		return 2, true // right assoc
	case "||":
		return 3, false
	case "&&":
		return 4, false
	case "==", "!=", "<", "<=", ">", ">=":
		return 5, false
	case "+", "-":
		return 6, false
	case "*", "/", "%":
		return 7, false
	}
	return -1, false
}

func (l *lexer) parse(minPrec int) Expr {
	lhs := l.parseUnary()
	for {
		t := l.peek()
		prec, right := binPrec(t)
		if prec < 0 || prec < minPrec {
			return lhs
		}
		l.next()
		var rhs Expr
		if right {
			rhs = l.parse(prec)
		} else {
			rhs = l.parse(prec + 1)
		}
		lhs = EBin{t.text, lhs, rhs}
	}
}

func (l *lexer) parseUnary() Expr {
	t := l.peek()
	if t.kind == "op" && (t.text == "!" || t.text == "-") {
		l.next()
		x := l.parseUnary()
		return EUn{t.text, x}
	}
	if t.kind == "id" && (t.text == "forall" || t.text == "exists") {
		l.next()
		var vars []QVar
		for {
			n := l.next()
			if n.kind != "id" {
				l.fail("quantifier variable expected at %d", n.pos)
			}
			// type: raw text until ',' or '::' at depth 0
			start := l.peek().pos
			depth := 0
			end := start
			for {
				p := l.peek()
				if p.kind == "eof" {
					l.fail("unterminated quantifier")
				}
				if depth == 0 && p.kind == "op" && (p.text == "," || p.text == "::") {
					end = p.pos
					break
				}
				if p.kind == "op" && (p.text == "[" || p.text == "(") {
					depth++
				}
				if p.kind == "op" && (p.text == "]" || p.text == ")") {
					depth--
				}
				l.next()
			}
			vars = append(vars, QVar{n.text, strings.TrimSpace(l.src[start:end])})
			if l.isOp(",") {
				l.next()
				continue
			}
			l.expect("::")
			break
		}
		body := l.parse(0)
		return EQuant{t.text == "forall", vars, body}
	}
	return l.parsePostfix()
}

func (l *lexer) parsePostfix() Expr {
	x := l.parsePrimary()
	for {
		if l.isOp(".") {
			l.next()
			n := l.next()
			if n.kind != "id" {
				l.fail("field name expected at %d", n.pos)
			}
			// qualified call: pkg.Func(args) or x.f
			if v, ok := x.(EVar); ok && l.isOp("(") {
				l.next()
				args := l.parseArgs()
				x = ECall{v.Name + "." + n.text, args}
				continue
			}
			x = EField{x, n.text}
			continue
		}
		if l.isOp("[") {
			l.next()
			i := l.parse(0)
			l.expect("]")
			x = EIndex{x, i}
			continue
		}
		return x
	}
}

func (l *lexer) parseArgs() []Expr {
	var args []Expr
	if l.isOp(")") {
		l.next()
		return args
	}
	for {
		args = append(args, l.parse(0))
		if l.isOp(",") {
			l.next()
			continue
		}
		l.expect(")")
		return args
	}
}

func (l *lexer) parsePrimary() Expr {
	t := l.next()
	switch t.kind {
	case "int":
		return EInt{t.text}
	case "str":
		return EStr{t.text}
	case "id":
		switch t.text {
		case "true":
			return EBool{true}
		case "false":
			return EBool{false}
		case "nil":
			return ENil{}
		}
		if l.isOp("(") {
			l.next()
			args := l.parseArgs()
			return ECall{t.text, args}
		}
		return EVar{t.text}
	case "op":
		if t.text == "(" {
			e := l.parse(0)
			l.expect(")")
			return e
		}
	}
	l.fail("unexpected token %q at %d", t.text, t.pos)
	return nil
}
