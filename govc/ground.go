package main

// Ground obligations: closed facts about the real code established by
// executing it (an in-package test injected with `go test -overlay`; nothing
// is written into the repository). Used where the code under test takes no
// input, so that one execution is its whole behaviour (C04: the state built by
// UGCPolicy() / StrictPolicy()).

import (
	"encoding/json"
	"fmt"
	"os"
	"os/exec"
	"path/filepath"
	"sort"
	"strings"
)

type policyDump struct {
	Elements        map[string][]string `json:"elements"`
	GlobalAttrs     []string            `json:"global_attrs"`
	ElementPatterns int                 `json:"element_patterns"`
	ElsStyles       int                 `json:"element_style_rules"`
	PatternStyles   int                 `json:"pattern_style_rules"`
	GlobalStyles    int                 `json:"global_style_rules"`
	Schemes         map[string]int      `json:"schemes"`
	SchemePatterns  int                 `json:"scheme_patterns"`
	SkipContent     []string            `json:"skip_content"`
	BarePatterns    int                 `json:"bare_patterns"`
	Flags           map[string]bool     `json:"flags"`
}

type ugcVocab struct {
	Elements       map[string][]string `json:"elements"`
	GlobalAttrs    []string            `json:"global_attrs"`
	Schemes        []string            `json:"schemes"`
	FlagsTrue      []string            `json:"flags_true"`
	FlagsFalse     []string            `json:"flags_false"`
	ForbiddenEls   []string            `json:"forbidden_elements"`
	ForbiddenPref  []string            `json:"forbidden_attr_prefixes"`
	ForbiddenAttrs []string            `json:"forbidden_attrs"`
	ForbiddenSch   []string            `json:"forbidden_schemes"`
}

func groundObl(prop, name, src string, ok bool) *Obligation {
	raw := "(assert false)\n(check-sat)\n"
	if !ok {
		raw = "(assert true)\n(check-sat)\n"
	}
	return &Obligation{Name: "ground/" + name, Fn: "ground", Kind: "ground", Tags: []string{prop}, Raw: raw, Src: src}
}

func eqSets(a, b []string) (bool, string) {
	am, bm := map[string]bool{}, map[string]bool{}
	for _, x := range a {
		am[x] = true
	}
	for _, x := range b {
		bm[x] = true
	}
	var extra, missing []string
	for x := range am {
		if !bm[x] {
			extra = append(extra, x)
		}
	}
	for x := range bm {
		if !am[x] {
			missing = append(missing, x)
		}
	}
	sort.Strings(extra)
	sort.Strings(missing)
	return len(extra) == 0 && len(missing) == 0, fmt.Sprintf("in code but not documented: %v; documented but not in code: %v", extra, missing)
}

// groundJob runs the named ground job and returns its obligations.
// groundAxioms evaluates the ground axioms of specs/ground_axioms.json that the
// property uses on the real functions (one in-package test per package).
func groundAxioms(repo, verifDir, prop string) ([]*Obligation, []string) {
	type ax struct {
		Name    string   `json:"name"`
		Props   []string `json:"props"`
		Pkg     string   `json:"pkg"`
		Imports []string `json:"imports"`
		Go      string   `json:"go"`
		Src     string   `json:"src"`
	}
	var axs []ax
	b, err := os.ReadFile(filepath.Join(verifDir, "specs", "ground_axioms.json"))
	if err != nil {
		return nil, []string{err.Error()}
	}
	if err := json.Unmarshal(b, &axs); err != nil {
		return nil, []string{"ground_axioms.json: " + err.Error()}
	}
	byPkg := map[string][]ax{}
	for _, a := range axs {
		for _, p := range a.Props {
			if p == prop {
				byPkg[a.Pkg] = append(byPkg[a.Pkg], a)
			}
		}
	}
	var obls []*Obligation
	var errs []string
	for pkg, as := range byPkg {
		imps := map[string]bool{"fmt": true, "testing": true}
		var body strings.Builder
		for _, a := range as {
			for _, i := range a.Imports {
				imps[i] = true
			}
			fmt.Fprintf(&body, "\tfmt.Println(\"VERIF-AX\", %q, %s)\n", a.Name, a.Go)
		}
		var il []string
		for i := range imps {
			il = append(il, fmt.Sprintf("\t%q", i))
		}
		sort.Strings(il)
		pkgName := "bluemonday"
		if pkg != "." {
			pkgName = filepath.Base(pkg)
		}
		src := fmt.Sprintf("package %s\n\nimport (\n%s\n)\n\nfunc TestVerifGroundAxioms(t *testing.T) {\n%s}\n", pkgName, strings.Join(il, "\n"), body.String())
		out, _ := goTestOverlay(repo, pkg, filepath.Join(verifDir, "work", "ground"), "zz_verif_axioms_test.go", src, "^TestVerifGroundAxioms$", nil)
		got := map[string]string{}
		for _, l := range strings.Split(out, "\n") {
			f := strings.Fields(l)
			if len(f) == 3 && f[0] == "VERIF-AX" {
				got[f[1]] = f[2]
			}
		}
		for _, a := range as {
			v, ok := got[a.Name]
			if !ok {
				errs = append(errs, fmt.Sprintf("ground axiom %s: the real code could not be run:\n%s", a.Name, out))
				continue
			}
			obls = append(obls, groundObl(prop, "axiom("+a.Name+")", a.Src+"; evaluated on the real code: "+a.Go, v == "true"))
		}
	}
	return obls, errs
}

func groundJob(job, repo, verifDir, prop string) ([]*Obligation, []string) {
	if job == "axioms" {
		return groundAxioms(repo, verifDir, prop)
	}
	if job != "shipped_policies" {
		return nil, []string{"unknown ground job " + job}
	}
	tmpl, err := os.ReadFile(filepath.Join(verifDir, "replay", "dump_policy_test.go.txt"))
	if err != nil {
		return nil, []string{err.Error()}
	}
	work := filepath.Join(verifDir, "work", "ground")
	os.MkdirAll(work, 0o755)
	testFile := filepath.Join(work, "zz_verif_dump_test.go")
	os.WriteFile(testFile, tmpl, 0o644)
	ov := map[string]map[string]string{"Replace": {filepath.Join(repo, "zz_verif_dump_test.go"): testFile}}
	ob, _ := json.Marshal(ov)
	ovFile := filepath.Join(work, "overlay.json")
	os.WriteFile(ovFile, ob, 0o644)
	cmd := exec.Command("go", "test", "-overlay", ovFile, "-vet=off", "-count=1", "-timeout", "120s", "-v", "-run", "^TestVerifDumpPolicies$", ".")
	cmd.Dir = repo
	cmd.Env = append(os.Environ(), "GOFLAGS=-mod=mod", "GOPROXY=off", "GOSUMDB=off", "GOTOOLCHAIN=local")
	out, err := cmd.CombinedOutput()
	var line string
	for _, l := range strings.Split(string(out), "\n") {
		if strings.HasPrefix(l, "VERIF-DUMP ") {
			line = strings.TrimPrefix(l, "VERIF-DUMP ")
		}
	}
	if line == "" {
		return nil, []string{fmt.Sprintf("ground job: running the real code failed: %v\n%s", err, string(out))}
	}
	var dumps map[string]policyDump
	if err := json.Unmarshal([]byte(line), &dumps); err != nil {
		return nil, []string{"ground job: " + err.Error()}
	}
	var vocab ugcVocab
	vb, err := os.ReadFile(filepath.Join(verifDir, "specs", "ugc_vocabulary.json"))
	if err != nil {
		return nil, []string{err.Error()}
	}
	if err := json.Unmarshal(vb, &vocab); err != nil {
		return nil, []string{"ugc_vocabulary.json: " + err.Error()}
	}
	var obls []*Obligation
	add := func(name, src string, ok bool) { obls = append(obls, groundObl(prop, name, src, ok)) }

	ugc := dumps["UGCPolicy"]
	var codeEls, docEls []string
	for e := range ugc.Elements {
		codeEls = append(codeEls, e)
	}
	for e := range vocab.Elements {
		docEls = append(docEls, e)
	}
	ok, d := eqSets(codeEls, docEls)
	add("UGCPolicy/elements", "the elements UGCPolicy() allows are exactly the documented vocabulary ("+d+")", ok)
	for _, e := range docEls {
		ok, d := eqSets(ugc.Elements[e], vocab.Elements[e])
		add("UGCPolicy/attrs("+e+")", "attribute names allowed on <"+e+"> are exactly the documented ones ("+d+")", ok)
	}
	ok, d = eqSets(ugc.GlobalAttrs, vocab.GlobalAttrs)
	add("UGCPolicy/global-attrs", "global attribute names are exactly the documented ones ("+d+")", ok)
	var sch []string
	custom := 0
	for s, n := range ugc.Schemes {
		sch = append(sch, s)
		custom += n
	}
	ok, d = eqSets(sch, vocab.Schemes)
	add("UGCPolicy/schemes", "URL schemes are exactly mailto/http/https ("+d+"), no custom checks, no scheme patterns", ok && custom == 0 && ugc.SchemePatterns == 0)
	add("UGCPolicy/no-patterns-no-styles", "no element patterns, no bare-element patterns, no style rules", ugc.ElementPatterns == 0 && ugc.BarePatterns == 0 && ugc.ElsStyles == 0 && ugc.PatternStyles == 0 && ugc.GlobalStyles == 0)
	for _, f := range vocab.FlagsTrue {
		add("UGCPolicy/flag("+f+")", f+" is set", ugc.Flags[f])
	}
	for _, f := range vocab.FlagsFalse {
		add("UGCPolicy/flag(!"+f+")", f+" is not set", !ugc.Flags[f])
	}
	// the documented vocabulary itself is inert
	bad := []string{}
	for e, as := range vocab.Elements {
		for _, fe := range vocab.ForbiddenEls {
			if e == fe {
				bad = append(bad, "element "+e)
			}
		}
		for _, a := range append(append([]string{}, as...), vocab.GlobalAttrs...) {
			for _, p := range vocab.ForbiddenPref {
				if strings.HasPrefix(a, p) {
					bad = append(bad, e+"."+a)
				}
			}
			for _, fa := range vocab.ForbiddenAttrs {
				if a == fa {
					bad = append(bad, e+"."+a)
				}
			}
		}
	}
	for _, s := range vocab.Schemes {
		for _, fs := range vocab.ForbiddenSch {
			if s == fs {
				bad = append(bad, "scheme "+s)
			}
		}
	}
	add("vocabulary/inert", fmt.Sprintf("the documented vocabulary contains no script/style/iframe/object/embed/form control/base/meta/link element, no on* or style attribute, no javascript:/data: scheme (%v)", bad), len(bad) == 0)

	st := dumps["StrictPolicy"]
	add("StrictPolicy/empty", "StrictPolicy() allows no element, no pattern, no global attribute, no comments, no unsafe elements, no data attributes",
		len(st.Elements) == 0 && st.ElementPatterns == 0 && len(st.GlobalAttrs) == 0 && !st.Flags["allowComments"] && !st.Flags["allowUnsafe"] && !st.Flags["allowDataAttributes"] && !st.Flags["addSpaces"])
	os.Remove(testFile)
	return obls, nil
}
