package main

import (
	"encoding/json"
	"flag"
	"fmt"
	"os"
	"runtime"
	"sort"
	"strings"

	"golang.org/x/tools/go/ssa"
)

func main() {
	if len(os.Args) < 2 {
		fmt.Fprintln(os.Stderr, "usage: govc <list|loops|verify|check|regl> ...")
		os.Exit(2)
	}
	cmd := os.Args[1]
	fs := flag.NewFlagSet(cmd, flag.ExitOnError)
	repo := fs.String("repo", envOr("VERIF_REPO", "/repo"), "repository")
	specs := fs.String("specs", envOr("VERIF_SPECS", "/verif/specs"), "spec directory")
	fnFlag := fs.String("fn", "", "comma-separated function keys (substring match)")
	prop := fs.String("prop", "", "property id")
	beh := fs.String("beh", "", "behaviour")
	timeout := fs.Int("timeout", 10, "per-solver timeout (s)")
	out := fs.String("out", "/verif/work/adhoc", "work directory")
	thorough := fs.Bool("thorough", false, "consult all solvers")
	tier := fs.String("tier", envOr("VERIF_TIER", "quick"), "quick|thorough")
	verbose := fs.Bool("v", false, "verbose")
	jobs := fs.Int("j", (runtime.NumCPU()+1)/2, "obligations in flight (each races up to three solver processes)")
	dump := fs.Bool("dump", false, "only write scripts")
	cover := fs.Bool("cover", false, "cover (vacuity) obligations only: each must NOT be unsat")
	fs.Parse(os.Args[2:])

	switch cmd {
	case "check":
		os.Exit(runCheck(fs.Args(), *repo, *specs, *tier, *jobs, *verbose))
	case "regl":
		os.Exit(runRegl(fs.Args(), *repo))
	}

	w, err := LoadWorld(*repo, []string{*specs})
	if err != nil {
		fmt.Fprintln(os.Stderr, "load:", err)
		os.Exit(2)
	}
	w.computeWrites()
	match := func(key string) bool {
		if *fnFlag == "" {
			return true
		}
		for _, p := range strings.Split(*fnFlag, ",") {
			if p == key || strings.Contains(key, p) {
				return true
			}
		}
		return false
	}
	switch cmd {
	case "list":
		for _, fn := range w.funcList {
			k := funcKey(fn)
			if !match(k) {
				continue
			}
			mark := " "
			if w.specs.Funcs[k] != nil {
				mark = "*"
			}
			fmt.Printf("%s %s  blocks=%d writes=%v\n", mark, k, len(fn.Blocks), sortedHeapNames(w.writes[fn]))
		}
	case "loops":
		for _, fn := range w.funcList {
			if !match(funcKey(fn)) {
				continue
			}
			fv := NewFuncVerifier(w, fn, Pass{})
			if len(fv.headers) == 0 {
				continue
			}
			fmt.Println(funcKey(fn))
			for i, h := range fv.headers {
				var phis []string
				for _, in := range h.Instrs {
					if p, ok := in.(*ssa.Phi); ok {
						phis = append(phis, p.Comment+":"+p.Name())
					}
				}
				fmt.Printf("  loop %d  block %d (%s)  %s  %q %v\n", i, h.Index, h.Comment, fv.loopSrc[h], fv.loopText(h), phis)
			}
		}
	case "verify":
		pass := Pass{Prop: *prop, Beh: *beh}
		var all []*Obligation
		var errs []string
		for _, fn := range w.funcList {
			if !match(funcKey(fn)) {
				continue
			}
			fv := NewFuncVerifier(w, fn, pass)
			fv.cover = *cover
			fv.Run()
			if *cover {
				for _, o := range fv.obls {
					if o.Kind == "cover" {
						all = append(all, o)
					}
				}
			} else {
				all = append(all, fv.obls...)
			}
			for _, e := range fv.errs {
				errs = append(errs, funcKey(fn)+": "+e)
			}
		}
		for _, e := range errs {
			fmt.Println("ERROR", e)
		}
		if *dump {
			os.MkdirAll(*out, 0o755)
			for i, o := range all {
				os.WriteFile(fmt.Sprintf("%s/%04d.smt2", *out, i), []byte(o.Script(false)), 0o644)
				fmt.Printf("%04d %s :: %s\n", i, o.Fn, o.Name)
			}
			return
		}
		res := Discharge(all, *out, *timeout, *thorough, *jobs, nil)
		if *cover {
			bad := 0
			for _, r := range res {
				if r.Status == "discharged" {
					bad++
					fmt.Printf("VACUOUS %s :: %s [%s] (assumptions are contradictory here) %s\n", r.O.Fn, r.O.Name, r.O.Pos, r.File)
				}
			}
			fmt.Printf("%d cover points, %d vacuous\n", len(res), bad)
			if bad > 0 {
				os.Exit(1)
			}
			return
		}
		nfail := 0
		sort.SliceStable(res, func(i, j int) bool { return res[i].Status > res[j].Status })
		for _, r := range res {
			if r.Status != "discharged" {
				nfail++
				var at []string
				for _, a := range r.Attempts {
					at = append(at, fmt.Sprintf("%s=%s(%.1fs)", a.Solver, a.Result, a.Secs))
				}
				if len(at) > 6 {
					at = append(at[:6], fmt.Sprintf("... (%d attempts)", len(at)))
				}
				fmt.Printf("FAIL %s :: %s  [%s] %s  %s\n     %s\n", r.O.Fn, r.O.Name, r.O.Pos, strings.Join(at, " "), r.File, r.O.Src)
				for _, fp := range r.FailPath {
					fmt.Printf("     undischarged path case: %s\n", fp)
				}
			} else if *verbose {
				fmt.Printf("ok   %s :: %s  by %s %.2fs\n", r.O.Fn, r.O.Name, r.By, r.Secs)
			}
		}
		fmt.Printf("%d obligations, %d discharged, %d failed, %d errors\n", len(res), len(res)-nfail, nfail, len(errs))
		if len(w.externals) > 0 && *verbose {
			b, _ := json.Marshal(sortedKeys(w.externals))
			fmt.Println("externals without contract:", string(b))
		}
		if nfail > 0 || len(errs) > 0 {
			os.Exit(1)
		}
	default:
		fmt.Fprintln(os.Stderr, "unknown command", cmd)
		os.Exit(2)
	}
}

func envOr(k, d string) string {
	if v := os.Getenv(k); v != "" {
		return v
	}
	return d
}
