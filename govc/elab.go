package main

// Elaboration of spec expressions into SMT terms against an encoder state.

import (
	"fmt"
	"go/types"
	"regexp"
	"strings"

	"golang.org/x/tools/go/ssa"
)

type EV struct {
	term string
	st   SType
}

type Env struct {
	e         *Enc
	vars      map[string]EV
	parent    *Env
	lookup    func(name string) (EV, bool) // program variables at the site
	curVer    map[string]int               // nil: live e.cur
	oldVer    map[string]int               // versions for old(); missing = 0
	visited   func(k string) (string, error)
	visitedOf func(n int, k string) (string, error)
	idxOf     func(n int) (string, error)
	preVer    map[string]int // heap versions at entry to the loop whose invariant is being elaborated
	qdepth    int            // quantifier nesting depth
	qvars     []string       // bound variable terms of the innermost quantifier
	trig      *[]string      // trigger candidates for the innermost quantifier
	// stable predicates applied to references that are not known to be allocated at entry
	forcePlain       bool
	noStableFallback bool
	assumeEntry      bool
}

func (env *Env) child() *Env {
	return &Env{e: env.e, vars: map[string]EV{}, parent: env, lookup: env.lookup, curVer: env.curVer, oldVer: env.oldVer, visited: env.visited, visitedOf: env.visitedOf, idxOf: env.idxOf, preVer: env.preVer, qdepth: env.qdepth, qvars: env.qvars, trig: env.trig}
}

func (env *Env) get(name string) (EV, bool) {
	for x := env; x != nil; x = x.parent {
		if v, ok := x.vars[name]; ok {
			return v, true
		}
	}
	if env.lookup != nil {
		return env.lookup(name)
	}
	return EV{}, false
}

var (
	letNameRe = regexp.MustCompile(`\|m\.[^|]*![0-9]+\|`)
	qNameRe   = regexp.MustCompile(`\|q\.[^|]*![0-9]+\|`)
)

// derefRe matches a heap read at the given reference term
func derefRe(term string) *regexp.Regexp {
	return regexp.MustCompile(`\(select \|[^|]+\| ` + regexp.QuoteMeta(term) + `\)`)
}

// trigger records r as a trigger candidate of the innermost quantifier if its
// index term is one of that quantifier's bound variables.
func (env *Env) trigger(r, idx string) {
	if env.trig == nil {
		return
	}
	for _, qv := range env.qvars {
		if idx == qv {
			*env.trig = append(*env.trig, r)
			return
		}
	}
}

func (env *Env) heap(h string) string {
	var t string
	if env.curVer != nil {
		t = env.e.heapAt(h, env.curVer[h])
	} else {
		t = env.e.H(h)
	}
	if env.e.heapLog != nil {
		env.e.heapLog[t] = true
	}
	return t
}

var (
	tInt  = SType{T: types.Typ[types.Int]}
	tBool = SType{T: types.Typ[types.Bool]}
	tStr  = SType{T: types.Typ[types.String]}
	tRef  = SType{Abs: "Ref"}
)

func (w *World) isSort(st SType, s string) bool { return w.stypeSort(st) == s }

func (env *Env) elab(x Expr) (string, SType, error) {
	e := env.e
	w := e.w
	switch n := x.(type) {
	case EInt:
		return n.V, tInt, nil
	case EStr:
		return strLit(n.V), tStr, nil
	case EBool:
		if n.V {
			return "true", tBool, nil
		}
		return "false", tBool, nil
	case ENil:
		return "nil", tRef, nil
	case EVar:
		if v, ok := env.get(n.Name); ok {
			return v.term, v.st, nil
		}
		if _, ok := w.specs.Ghosts[n.Name]; ok {
			h, err := w.heapGhost(n.Name)
			if err != nil {
				return "", SType{}, err
			}
			st, _ := w.parseSType(w.specs.Ghosts[n.Name].Type)
			return env.heap(h), st, nil
		}
		if n.Name == "nilslice" {
			return "nilslice", SType{T: types.NewSlice(types.Typ[types.Int])}, nil
		}
		// package-level variable of a repo package
		for _, p := range w.pkgs {
			if g, ok := p.Members[n.Name].(*ssa.Global); ok {
				return env.heap(w.heapGlobal(g)), SType{T: derefType(g.Type())}, nil
			}
		}
		return "", SType{}, fmt.Errorf("unknown identifier %q", n.Name)
	case EUn:
		t, st, err := env.elab(n.X)
		if err != nil {
			return "", st, err
		}
		if n.Op == "!" {
			return "(not " + t + ")", tBool, nil
		}
		return "(- " + t + ")", tInt, nil
	case EBin:
		return env.elabBin(n)
	case EField:
		// qualified global: pkg.Var
		if v, ok := n.X.(EVar); ok {
			if _, bound := env.get(v.Name); !bound {
				if p, ok := w.allPkgs[v.Name]; ok {
					if sp := w.prog.Package(p); sp != nil {
						if g, ok := sp.Members[n.Name].(*ssa.Global); ok {
							return env.heap(w.heapGlobal(g)), SType{T: derefType(g.Type())}, nil
						}
					}
				}
			}
		}
		t, st, err := env.elab(n.X)
		if err != nil {
			return "", st, err
		}
		if st.T == nil {
			return "", st, fmt.Errorf("field %s of abstract value", n.Name)
		}
		base := st.T
		isPtr := false
		if p, ok := base.Underlying().(*types.Pointer); ok {
			base = p.Elem()
			isPtr = true
		}
		strct, ok := base.Underlying().(*types.Struct)
		if !ok {
			return "", st, fmt.Errorf("field %s of non-struct %s", n.Name, st)
		}
		for i := 0; i < strct.NumFields(); i++ {
			if strct.Field(i).Name() == n.Name {
				ft := SType{T: strct.Field(i).Type()}
				if isPtr {
					return fmt.Sprintf("(select %s %s)", env.heap(w.heapField(base, i)), t), ft, nil
				}
				return w.structSel(base, i, t), ft, nil
			}
		}
		return "", st, fmt.Errorf("no field %s in %s", n.Name, st)
	case EIndex:
		t, st, err := env.elab(n.X)
		if err != nil {
			return "", st, err
		}
		it, _, err := env.elab(n.I)
		if err != nil {
			return "", st, err
		}
		if st.T == nil {
			return "", st, fmt.Errorf("index of abstract value")
		}
		switch u := st.T.Underlying().(type) {
		case *types.Map:
			r := fmt.Sprintf("(select (select %s %s) %s)", env.heap(w.heapMapVal(u)), t, it)
			env.trigger(r, it)
			return r, SType{T: u.Elem()}, nil
		case *types.Slice:
			r := fmt.Sprintf("(select (select %s (s_arr %s)) (addi (s_off %s) %s))", env.heap(w.heapArr(u.Elem())), t, t, it)
			env.trigger(r, it)
			return r, SType{T: u.Elem()}, nil
		case *types.Basic:
			return fmt.Sprintf("(sbyte %s %s)", t, it), tInt, nil
		}
		return "", st, fmt.Errorf("cannot index %s", st)
	case EQuant:
		c := env.child()
		c.qdepth = env.qdepth + 1
		var cands []string
		c.trig = &cands
		c.qvars = nil
		var bs []string
		for _, v := range n.Vars {
			st, err := w.parseSType(v.Type)
			if err != nil {
				return "", st, err
			}
			name := q(e.freshName("q." + v.Name))
			c.vars[v.Name] = EV{name, st}
			c.qvars = append(c.qvars, name)
			bs = append(bs, fmt.Sprintf("(%s %s)", name, w.stypeSort(st)))
		}
		b, _, err := c.elab(n.Body)
		if err != nil {
			return "", tBool, err
		}
		// explicit triggers: index terms s[i] / m[k] / k in m whose index is a bound
		// variable, that mention every bound variable and only outer let-names
		var pats []string
		seen := map[string]bool{}
		for _, cand := range cands {
			ok := true
			for _, qv := range c.qvars {
				if !strings.Contains(cand, qv) {
					ok = false
				}
			}
			for _, ln := range letNameRe.FindAllString(cand, -1) {
				if lvl, isLet := e.letLevel[ln]; isLet && lvl >= c.qdepth {
					ok = false
				}
			}
			for _, qn := range qNameRe.FindAllString(cand, -1) {
				// variables of inner quantifiers must not occur
				inScope := false
				for x := c; x != nil; x = x.parent {
					for _, v := range x.vars {
						if v.term == qn {
							inScope = true
						}
					}
				}
				if !inScope {
					ok = false
				}
			}
			if ok && !seen[cand] && len(pats) < 3 {
				seen[cand] = true
				pats = append(pats, ":pattern ("+cand+")")
			}
		}
		if len(pats) > 0 {
			b = fmt.Sprintf("(! %s %s)", b, strings.Join(pats, " "))
		}
		kw := "exists"
		if n.Forall {
			kw = "forall"
		}
		return fmt.Sprintf("(%s (%s) %s)", kw, strings.Join(bs, " "), b), tBool, nil
	case ECall:
		return env.elabCall(n)
	}
	return "", SType{}, fmt.Errorf("cannot elaborate %T", x)
}

func (env *Env) elabBin(n EBin) (string, SType, error) {
	w := env.e.w
	if n.Op == "in" {
		k, _, err := env.elab(n.L)
		if err != nil {
			return "", tBool, err
		}
		m, st, err := env.elab(n.R)
		if err != nil {
			return "", tBool, err
		}
		mt, ok := st.T.Underlying().(*types.Map)
		if st.T == nil || !ok {
			return "", tBool, fmt.Errorf("'in' needs a map, got %s", st)
		}
		env.trigger(fmt.Sprintf("(select (select %s %s) %s)", env.heap(w.heapMapDom(mt)), m, k), k)
		return fmt.Sprintf("(and (not (= %s nil)) (select (select %s %s) %s))", m, env.heap(w.heapMapDom(mt)), m, k), tBool, nil
	}
	l, lt, err := env.elab(n.L)
	if err != nil {
		return "", lt, err
	}
	r, rt, err := env.elab(n.R)
	if err != nil {
		return "", rt, err
	}
	switch n.Op {
	case "<==>":
		return fmt.Sprintf("(= %s %s)", l, r), tBool, nil
	case "==>":
		return fmt.Sprintf("(=> %s %s)", l, r), tBool, nil
	case "&&":
		return fmt.Sprintf("(and %s %s)", l, r), tBool, nil
	case "||":
		return fmt.Sprintf("(or %s %s)", l, r), tBool, nil
	case "==", "!=":
		ls, rs := w.stypeSort(lt), w.stypeSort(rt)
		if _, ok := n.R.(ENil); ok && ls == "Slice" {
			l, r = "(s_arr "+l+")", "nil"
		} else if ls != rs {
			return "", tBool, fmt.Errorf("comparison of %s (%s) with %s (%s)", lt, ls, rt, rs)
		}
		if n.Op == "==" {
			return fmt.Sprintf("(= %s %s)", l, r), tBool, nil
		}
		return fmt.Sprintf("(not (= %s %s))", l, r), tBool, nil
	case "<", "<=", ">", ">=":
		return fmt.Sprintf("(%s %s %s)", n.Op, l, r), tBool, nil
	case "+":
		if w.stypeSort(lt) == "Str" {
			return fmt.Sprintf("(sconcat %s %s)", l, r), tStr, nil
		}
		return fmt.Sprintf("(+ %s %s)", l, r), tInt, nil
	case "-":
		return fmt.Sprintf("(- %s %s)", l, r), tInt, nil
	case "*":
		return fmt.Sprintf("(* %s %s)", l, r), tInt, nil
	case "/":
		return fmt.Sprintf("(godiv %s %s)", l, r), tInt, nil
	case "%":
		return fmt.Sprintf("(gorem %s %s)", l, r), tInt, nil
	}
	return "", tBool, fmt.Errorf("unknown operator %s", n.Op)
}

func (env *Env) elabCall(n ECall) (string, SType, error) {
	e := env.e
	w := e.w
	switch n.Fn {
	case "old":
		if len(n.Args) != 1 {
			return "", tBool, fmt.Errorf("old(e)")
		}
		c := env.child()
		c.curVer = env.oldVer
		if c.curVer == nil {
			c.curVer = map[string]int{}
		}
		return c.elab(n.Args[0])
	case "pre":
		if env.preVer == nil {
			return "", tBool, fmt.Errorf("pre(e) is only meaningful in a loop invariant")
		}
		c := env.child()
		c.curVer = env.preVer
		return c.elab(n.Args[0])
	case "len":
		t, st, err := env.elab(n.Args[0])
		if err != nil {
			return "", tInt, err
		}
		switch w.stypeSort(st) {
		case "Slice":
			return "(s_len " + t + ")", tInt, nil
		case "Str":
			return "(slen " + t + ")", tInt, nil
		}
		if st.T != nil {
			if mt, ok := st.T.Underlying().(*types.Map); ok {
				return e.mapLen(mt, t, env.heap(w.heapMapDom(mt))), tInt, nil
			}
		}
		return "", tInt, fmt.Errorf("len of %s", st)
	case "ite":
		c, _, err := env.elab(n.Args[0])
		if err != nil {
			return "", tBool, err
		}
		a, at, err := env.elab(n.Args[1])
		if err != nil {
			return "", tBool, err
		}
		b, _, err := env.elab(n.Args[2])
		if err != nil {
			return "", tBool, err
		}
		return fmt.Sprintf("(ite %s %s %s)", c, a, b), at, nil
	case "allocated":
		t, _, err := env.elab(n.Args[0])
		if err != nil {
			return "", tBool, err
		}
		return fmt.Sprintf("(isalloc %s %s)", env.heap(heapAlloc), t), tBool, nil
	case "allocated0": // allocated in the function's entry state (the term itself is evaluated in the current state)
		t, st, err := env.elab(n.Args[0])
		if err != nil {
			return "", tBool, err
		}
		if w.stypeSort(st) == "Slice" {
			t = "(s_arr " + t + ")"
		}
		return fmt.Sprintf("(isalloc %s %s)", e.heapAt(heapAlloc, 0), t), tBool, nil
	case "fresh": // allocated now, not allocated in the old state
		t, st, err := env.elab(n.Args[0])
		if err != nil {
			return "", tBool, err
		}
		if w.stypeSort(st) == "Slice" {
			t = "(s_arr " + t + ")"
		}
		ov := 0
		if env.oldVer != nil {
			ov = env.oldVer[heapAlloc]
		}
		return fmt.Sprintf("(and (not (= %s nil)) (not (isalloc %s %s)) (isalloc %s %s))", t, e.heapAt(heapAlloc, ov), t, env.heap(heapAlloc), t), tBool, nil
	case "arr": // backing array reference of a slice
		t, _, err := env.elab(n.Args[0])
		if err != nil {
			return "", tBool, err
		}
		return "(s_arr " + t + ")", tRef, nil
	case "elems": // contents array of a slice (raw SMT array)
		t, st, err := env.elab(n.Args[0])
		if err != nil {
			return "", tBool, err
		}
		sl, ok := st.T.Underlying().(*types.Slice)
		if st.T == nil || !ok {
			return "", tBool, fmt.Errorf("elems of non-slice %s", st)
		}
		return fmt.Sprintf("(select %s (s_arr %s))", env.heap(w.heapArr(sl.Elem())), t), SType{Abs: "(Array Int " + w.sortOf(sl.Elem()) + ")", Elem: sl.Elem()}, nil
	case "off":
		t, _, err := env.elab(n.Args[0])
		if err != nil {
			return "", tBool, err
		}
		return "(s_off " + t + ")", tInt, nil
	case "string": // string(b) for b []byte
		t, st, err := env.elab(n.Args[0])
		if err != nil {
			return "", tBool, err
		}
		sl, ok := st.T.Underlying().(*types.Slice)
		if st.T == nil || !ok {
			return "", tBool, fmt.Errorf("string() of non-slice %s", st)
		}
		f := e.declareFun(q("str_of."+w.tyid(sl.Elem())), []string{"(Array Int " + w.sortOf(sl.Elem()) + ")", "Int", "Int"}, "Str")
		return fmt.Sprintf("(%s (select %s (s_arr %s)) (s_off %s) (s_len %s))", f, env.heap(w.heapArr(sl.Elem())), t, t, t), tStr, nil
	case "$apply": // $apply(f, args...): result of calling the function value f (same symbol the encoder uses for dynamic calls)
		ft, fst, err := env.elab(n.Args[0])
		if err != nil {
			return "", tBool, err
		}
		if fst.T == nil {
			return "", tBool, fmt.Errorf("$apply needs a function value with one result")
		}
		sig, ok := fst.T.Underlying().(*types.Signature)
		if !ok || sig.Results().Len() != 1 {
			return "", tBool, fmt.Errorf("$apply needs a function value with one result")
		}
		as := []string{ft}
		sorts := []string{"Ref"}
		for i, a := range n.Args[1:] {
			t, _, err := env.elab(a)
			if err != nil {
				return "", tBool, err
			}
			as = append(as, t)
			sorts = append(sorts, w.sortOf(sig.Params().At(i).Type()))
		}
		name := q("apply:" + typeStr(fst.T.Underlying()))
		e.declareFun(name, sorts, w.sortOf(sig.Results().At(0).Type()))
		return fmt.Sprintf("(%s %s)", name, strings.Join(as, " ")), SType{T: sig.Results().At(0).Type()}, nil
	case "at": // at(a, o, j): element o+j of a raw SMT array, in the same shape as slice element access
		a, ast, err := env.elab(n.Args[0])
		if err != nil {
			return "", tBool, err
		}
		o, _, err := env.elab(n.Args[1])
		if err != nil {
			return "", tBool, err
		}
		j, _, err := env.elab(n.Args[2])
		if err != nil {
			return "", tBool, err
		}
		if ast.T != nil || !strings.HasPrefix(ast.Abs, "(Array Int ") {
			return "", tBool, fmt.Errorf("at needs a raw Int-indexed array, got %s", ast)
		}
		es := strings.TrimSuffix(strings.TrimPrefix(ast.Abs, "(Array Int "), ")")
		st := SType{Abs: es}
		switch es {
		case "Str":
			st = tStr
		case "Int":
			st = tInt
		case "Bool":
			st = tBool
		}
		r := fmt.Sprintf("(select %s (addi %s %s))", a, o, j)
		env.trigger(r, j)
		if ast.Elem != nil {
			st = SType{T: ast.Elem}
		}
		return r, st, nil
	case "upd": // upd(a, i, v): raw SMT array a with a[i] := v
		a, ast, err := env.elab(n.Args[0])
		if err != nil {
			return "", tBool, err
		}
		i, _, err := env.elab(n.Args[1])
		if err != nil {
			return "", tBool, err
		}
		v, _, err := env.elab(n.Args[2])
		if err != nil {
			return "", tBool, err
		}
		if ast.T != nil || !strings.HasPrefix(ast.Abs, "(Array ") {
			return "", tBool, fmt.Errorf("upd needs a raw array, got %s", ast)
		}
		return fmt.Sprintf("(store %s %s %s)", a, i, v), ast, nil
	case "sel": // sel(a, i): element of a raw SMT array
		a, ast, err := env.elab(n.Args[0])
		if err != nil {
			return "", tBool, err
		}
		i, _, err := env.elab(n.Args[1])
		if err != nil {
			return "", tBool, err
		}
		if ast.T != nil || !strings.HasPrefix(ast.Abs, "(Array ") {
			return "", tBool, fmt.Errorf("sel needs a raw array, got %s", ast)
		}
		// element sort: last component of (Array K V)
		inner := strings.TrimSuffix(strings.TrimPrefix(ast.Abs, "(Array "), ")")
		sp := strings.Index(inner, " ")
		es := strings.TrimSpace(inner[sp+1:])
		st := SType{Abs: es}
		switch es {
		case "Str":
			st = tStr
		case "Int":
			st = tInt
		case "Bool":
			st = tBool
		}
		r := fmt.Sprintf("(select %s %s)", a, i)
		env.trigger(r, i)
		return r, st, nil
	case "fnvalue": // fnvalue(pkg.Func): the function value of a repo function
		name := ""
		switch a := n.Args[0].(type) {
		case EField:
			if v, ok := a.X.(EVar); ok {
				name = v.Name + "." + a.Name
			}
		case EVar:
			name = a.Name
		}
		fn := w.funcs[name]
		if fn == nil {
			return "", tBool, fmt.Errorf("fnvalue: unknown function %q", name)
		}
		return e.val(fn), SType{T: fn.Signature}, nil
	case "$idx": // $idx(N): the range index of loop N (rangeindex of an enclosing loop)
		li, ok := n.Args[0].(EInt)
		if !ok || env.idxOf == nil {
			return "", tBool, fmt.Errorf("$idx(N) needs a literal loop ordinal inside a function contract")
		}
		var ord int
		fmt.Sscanf(li.V, "%d", &ord)
		t, err := env.idxOf(ord)
		return t, tInt, err
	case "box": // box(v): the interface value the compiler makes of a non-reference value v (ssa.MakeInterface)
		t, st, err := env.elab(n.Args[0])
		if err != nil {
			return "", tRef, err
		}
		if st.T == nil || w.sortOf(st.T) == "Ref" {
			return t, tRef, nil
		}
		f := e.declareFun(q("box."+w.tyid(st.T)), []string{w.sortOf(st.T)}, "Ref")
		return fmt.Sprintf("(%s %s)", f, t), tRef, nil
	case "ref": // view any Ref-sorted value as Ref
		t, _, err := env.elab(n.Args[0])
		return t, tRef, err
	case "$visited":
		if env.visited == nil {
			return "", tBool, fmt.Errorf("$visited outside a map-range loop invariant")
		}
		k, _, err := env.elab(n.Args[0])
		if err != nil {
			return "", tBool, err
		}
		t, err := env.visited(k)
		return t, tBool, err
	}
	if strings.HasPrefix(n.Fn, "$visited") && len(n.Fn) > 8 && env.visitedOf != nil {
		var ord int
		if _, err := fmt.Sscanf(n.Fn[8:], "%d", &ord); err == nil {
			k, _, err := env.elab(n.Args[0])
			if err != nil {
				return "", tBool, err
			}
			t, err := env.visitedOf(ord, k)
			return t, tBool, err
		}
	}
	if d, ok := w.specs.Defines[n.Fn]; ok && d.Opaque {
		return env.elabOpaque(d, n)
	}
	if d, ok := w.specs.Defines[n.Fn]; ok {
		if len(d.Params) != len(n.Args) {
			return "", tBool, fmt.Errorf("%s: want %d args, got %d", n.Fn, len(d.Params), len(n.Args))
		}
		// macro: evaluate the body in an environment binding parameters to
		// argument terms; heap reads happen in the caller's heap state.
		c := &Env{e: e, vars: map[string]EV{}, curVer: env.curVer, oldVer: env.oldVer, visited: env.visited, visitedOf: env.visitedOf, idxOf: env.idxOf, preVer: env.preVer, qdepth: env.qdepth, qvars: env.qvars, trig: env.trig}
		var lets []string
		for i, p := range d.Params {
			at, ast, err := env.elab(n.Args[i])
			if err != nil {
				return "", tBool, err
			}
			pst, err := w.parseSType(p.Type)
			if err != nil {
				return "", tBool, err
			}
			if w.stypeSort(pst) != w.stypeSort(ast) && !(at == "nil") {
				return "", tBool, fmt.Errorf("%s: argument %d has sort %s, want %s", n.Fn, i, w.stypeSort(ast), w.stypeSort(pst))
			}
			nm := q(e.freshName("m." + p.Name))
			e.letLevel[nm] = env.qdepth
			e.letDef[nm] = at
			lets = append(lets, fmt.Sprintf("(%s %s)", nm, at))
			c.vars[p.Name] = EV{nm, pst}
		}
		b, _, err := c.elab(d.Body)
		if err != nil {
			return "", tBool, fmt.Errorf("in define %s: %v", n.Fn, err)
		}
		rst, err := w.parseSType(d.Ret)
		if err != nil {
			return "", tBool, err
		}
		if len(lets) == 0 {
			return b, rst, nil
		}
		return fmt.Sprintf("(let (%s) %s)", strings.Join(lets, " "), b), rst, nil
	}
	if f, ok := w.specs.Funs[n.Fn]; ok {
		if len(f.Params) != len(n.Args) {
			return "", tBool, fmt.Errorf("%s: want %d args, got %d", n.Fn, len(f.Params), len(n.Args))
		}
		name, rst, err := e.declareSpecFun(f)
		if err != nil {
			return "", tBool, err
		}
		if len(n.Args) == 0 {
			return name, rst, nil
		}
		var as []string
		for i, a := range n.Args {
			t, ast, err := env.elab(a)
			if err != nil {
				return "", tBool, err
			}
			pst, _ := w.parseSType(f.Params[i].Type)
			if w.stypeSort(pst) != w.stypeSort(ast) && t != "nil" {
				return "", tBool, fmt.Errorf("%s: argument %d has sort %s, want %s", n.Fn, i, w.stypeSort(ast), w.stypeSort(pst))
			}
			as = append(as, t)
		}
		return fmt.Sprintf("(%s %s)", name, strings.Join(as, " ")), rst, nil
	}
	// external pure function pkg.Func: the same uninterpreted symbol the
	// encoder uses for calls to it
	if i := strings.Index(n.Fn, "."); i > 0 {
		if p, ok := w.allPkgs[n.Fn[:i]]; ok {
			if fo, ok := p.Scope().Lookup(n.Fn[i+1:]).(*types.Func); ok {
				sig := fo.Type().(*types.Signature)
				if sig.Results().Len() == 1 && sig.Params().Len() == len(n.Args) {
					var sorts, as []string
					for j, a := range n.Args {
						t, _, err := env.elab(a)
						if err != nil {
							return "", tBool, err
						}
						as = append(as, t)
						sorts = append(sorts, w.sortOf(sig.Params().At(j).Type()))
					}
					name := q("call:" + n.Fn)
					e.declareFun(name, sorts, w.sortOf(sig.Results().At(0).Type()))
					return fmt.Sprintf("(%s %s)", name, strings.Join(as, " ")), SType{T: sig.Results().At(0).Type()}, nil
				}
			}
		}
	}
	return "", tBool, fmt.Errorf("unknown function %q", n.Fn)
}

func (e *Enc) declareSpecFun(f *FunDecl) (string, SType, error) {
	w := e.w
	rst, err := w.parseSType(f.Ret)
	if err != nil {
		return "", rst, err
	}
	var as []string
	for _, p := range f.Params {
		st, err := w.parseSType(p.Type)
		if err != nil {
			return "", rst, err
		}
		as = append(as, w.stypeSort(st))
	}
	name := q("f." + f.Name)
	e.declareFun(name, as, w.stypeSort(rst))
	return name, rst, nil
}

func (e *Enc) mapLen(mt *types.Map, m, domHeap string) string {
	w := e.w
	f := e.declareFun(q("mlen."+w.tyid(mt.Key())), []string{"(Array " + w.sortOf(mt.Key()) + " Bool)"}, "Int")
	if _, ok := e.decls["$mlenax."+w.tyid(mt.Key())]; !ok {
		e.decls["$mlenax."+w.tyid(mt.Key())] = ""
		ks := w.sortOf(mt.Key())
		e.assume(fmt.Sprintf("(forall ((d (Array %s Bool))) (! (and (>= (%s d) 0) (= (= (%s d) 0) (= d ((as const (Array %s Bool)) false)))) :pattern ((%s d))))", ks, f, f, ks, f))
	}
	return fmt.Sprintf("(ite (= %s nil) 0 (%s (select %s %s)))", m, f, domHeap, m)
}

// elabOpaque: the define is an uninterpreted function symbol, one per heap
// state it is evaluated in, with a definitional axiom  f(x) = body(x)
// triggered on f(x). Quantified contracts then mention only f, and the body is
// unfolded only for the terms that need it.
func (env *Env) elabOpaque(d *Define, n ECall) (string, SType, error) {
	e := env.e
	w := e.w
	if len(d.Params) != len(n.Args) {
		return "", tBool, fmt.Errorf("%s: want %d args, got %d", d.Name, len(d.Params), len(n.Args))
	}
	rst, err := w.parseSType(d.Ret)
	if err != nil {
		return "", tBool, err
	}
	var as, sorts, binders, pnames []string
	c := &Env{e: e, vars: map[string]EV{}, curVer: env.curVer, oldVer: env.oldVer, visited: env.visited, preVer: env.preVer}
	stable := d.Stable && e.fv != nil && e.fv.modifiesNothing() && !env.forcePlain
	if stable {
		// stable predicate in a `modifies nothing` function: evaluated in the entry state
		c.curVer = map[string]int{}
		c.oldVer = map[string]int{}
	}
	for i, p := range d.Params {
		at, ast, err := env.elab(n.Args[i])
		if err != nil {
			return "", tBool, err
		}
		pst, err := w.parseSType(p.Type)
		if err != nil {
			return "", tBool, err
		}
		if w.stypeSort(pst) != w.stypeSort(ast) && at != "nil" {
			return "", tBool, fmt.Errorf("%s: argument %d has sort %s, want %s", d.Name, i, w.stypeSort(ast), w.stypeSort(pst))
		}
		as = append(as, at)
		sorts = append(sorts, w.stypeSort(pst))
		pn := q("op." + d.Name + "." + p.Name)
		pnames = append(pnames, pn)
		binders = append(binders, fmt.Sprintf("(%s %s)", pn, w.stypeSort(pst)))
		c.vars[p.Name] = EV{pn, pst}
	}
	// elaborate the body once to learn which heap versions it reads
	saveLog := e.heapLog
	e.heapLog = map[string]bool{}
	saveFresh := e.fresh
	body, _, err := c.elab(d.Body)
	log := e.heapLog
	e.heapLog = saveLog
	if saveLog != nil {
		for k := range log {
			saveLog[k] = true
		}
	}
	if err != nil {
		return "", tBool, fmt.Errorf("in opaque %s: %v", d.Name, err)
	}
	if stable {
		// side condition: every reference parameter that the body dereferences must be
		// (after resolving macro lets) a parameter of the enclosing function, i.e. allocated at entry
		for i, p := range d.Params {
			if sorts[i] != "Ref" {
				continue
			}
			// the parameter itself and every let-bound alias of it introduced by macro expansion
			names := []string{pnames[i]}
			for k := 0; k < len(names); k++ {
				for _, m := range regexp.MustCompile(`\((\|m\.[^|]*\|) `+regexp.QuoteMeta(names[k])+`\)`).FindAllStringSubmatch(body, -1) {
					dup := false
					for _, x := range names {
						if x == m[1] {
							dup = true
						}
					}
					if !dup {
						names = append(names, m[1])
					}
				}
			}
			derefs := false
			for _, nm := range names {
				if derefRe(nm).MatchString(body) {
					derefs = true
				}
			}
			if !derefs {
				continue
			}
			t := as[i]
			for {
				d2, ok := e.letDef[t]
				if !ok {
					break
				}
				t = d2
			}
			isParam := t == "nil" || strings.HasPrefix(t, "|op.")
			for _, fp := range e.fn.Params {
				if t == e.vname(fp) {
					isParam = true
				}
			}
			if !isParam {
				// not known to be allocated at entry: the entry-state reading would be about an object that
				// need not exist there; fall back to the plain (current-state) meaning of the predicate
				if env.noStableFallback {
					return "", tBool, fmt.Errorf("stable predicate %s dereferences parameter %s, bound to %s, which is not a parameter of the enclosing function", d.Name, p.Name, t)
				}
				if env.assumeEntry {
					continue
				}
				// sound by the stable-predicate meta-theorem: if the argument was allocated at entry the
				// entry-state reading applies, otherwise the predicate has its plain (current-state) meaning
				env2 := *env
				env2.noStableFallback = true
				env2.forcePlain = true
				plain, pst, err := env2.elabOpaque(d, n)
				if err != nil {
					return "", tBool, err
				}
				env3 := *env
				env3.assumeEntry = true
				st, _, err := env3.elabOpaque(d, n)
				if err != nil {
					return "", tBool, err
				}
				var conds []string
				for i2 := range d.Params {
					if sorts[i2] == "Ref" {
						conds = append(conds, fmt.Sprintf("(or (= %s nil) (isalloc %s %s))", as[i2], e.heapAt(heapAlloc, 0), as[i2]))
					}
				}
				return fmt.Sprintf("(ite (and %s) %s %s)", strings.Join(conds, " "), st, plain), pst, nil
			}
		}
		for h := range log {
			if strings.HasPrefix(h, "|gh.") || strings.HasPrefix(h, "|it.") {
				return "", tBool, fmt.Errorf("stable predicate %s reads ghost/iterator state %s", d.Name, h)
			}
		}
	}
	sig := strings.Join(sortedHeapNames(log), ",")
	key := d.Name + "@" + sig
	name, ok := e.opaque[key]
	if !ok {
		name = q(fmt.Sprintf("op.%s@%d", d.Name, len(e.opaque)))
		e.opaque[key] = name
		e.declareFun(name, sorts, w.stypeSort(rst))
		app := "(" + name + " " + strings.Join(pnames, " ") + ")"
		if len(pnames) == 0 {
			app = name
		}
		ax := fmt.Sprintf("(forall (%s) (! (= %s %s) :pattern (%s)))", strings.Join(binders, " "), app, body, app)
		if len(pnames) == 0 {
			ax = fmt.Sprintf("(= %s %s)", app, body)
		}
		revealed := !d.Hidden
		if d.Hidden && e.spec != nil {
			for _, rn := range e.spec.Reveals {
				if rn.Name == d.Name && e.pass.Active(rn.Tags) {
					revealed = true
				}
			}
		}
		if revealed {
			// global: belongs to no block (it must survive ancestor pruning)
			sb := e.curBlock
			e.curBlock = nil
			e.assume(ax)
			e.curBlock = sb
		}
	} else {
		e.fresh = saveFresh
	}
	if len(as) == 0 {
		return name, rst, nil
	}
	return "(" + name + " " + strings.Join(as, " ") + ")", rst, nil
}
