package main

import (
	"fmt"
	"go/ast"
	"go/token"
	"go/types"
	"os"
	"path/filepath"
	"sort"
	"strings"

	"golang.org/x/tools/go/packages"
	"golang.org/x/tools/go/ssa"
	"golang.org/x/tools/go/ssa/ssautil"
)

// World holds the loaded program, the specs and global registries (sorts,
// heaps, may-write sets).
type World struct {
	repo     string
	fset     *token.FileSet
	prog     *ssa.Program
	pkgs     []*ssa.Package
	repoPkgs map[*types.Package]bool
	allPkgs  map[string]*types.Package // by package name (first wins) for spec type resolution
	root     *types.Package            // default package for unqualified spec types
	specs    *Specs
	funcs    map[string]*ssa.Function // key -> repo function with body
	funcList []*ssa.Function

	dtDecls         []string              // datatype declarations in dependency order
	dtSeen          map[string]bool       //
	heapSorts       map[string]string     // heap name -> SMT sort
	litOfLHS        map[token.Pos]ast.Expr
	heapMeta        map[string]types.Type // heap name -> content type (field/elem/cell type; map type for MD/MV)
	writes          map[*ssa.Function]map[string]bool
	externals       map[string]bool      // external callees met without contract (assumption list)
	initNonNil      map[*ssa.Global]bool // package-level vars set once, in init, to a non-nil value
	implicitNothing bool                 // C13 run: repo functions without a modifies clause are checked against (and assumed to satisfy) `modifies nothing`
}

func qual(p *types.Package) string {
	if p == nil {
		return ""
	}
	if p.Name() == "main" { // several commands: qualify by directory
		path := p.Path()
		if i := strings.LastIndex(path, "/"); i >= 0 {
			return path[i+1:]
		}
		return path
	}
	return p.Name()
}

func typeStr(t types.Type) string { return types.TypeString(t, qual) }

// funcKey gives the contract key of a function: (*pkg.T).m, pkg.F, pkg.F$1
func funcKey(f *ssa.Function) string {
	if f == nil {
		return "<nil>"
	}
	if f.Signature.Recv() != nil {
		return "(" + typeStr(f.Signature.Recv().Type()) + ")." + f.Name()
	}
	if f.Parent() != nil {
		return funcKey(f.Parent()) + "$" + strings.TrimPrefix(f.Name(), f.Parent().Name()+"$")
	}
	if f.Pkg != nil {
		return qual(f.Pkg.Pkg) + "." + f.Name()
	}
	if f.Object() != nil && f.Object().Pkg() != nil {
		return qual(f.Object().Pkg()) + "." + f.Name()
	}
	return f.String()
}

func LoadWorld(repo string, specDirs []string) (*World, error) {
	w := &World{repo: repo, repoPkgs: map[*types.Package]bool{}, allPkgs: map[string]*types.Package{},
		funcs: map[string]*ssa.Function{}, dtSeen: map[string]bool{}, heapSorts: map[string]string{}, heapMeta: map[string]types.Type{},
		writes: map[*ssa.Function]map[string]bool{}, externals: map[string]bool{}, initNonNil: map[*ssa.Global]bool{}}
	cfg := &packages.Config{Mode: packages.LoadAllSyntax, Dir: repo, BuildFlags: []string{"-tags=verif"}, Tests: false}
	pkgs, err := packages.Load(cfg, "./...")
	if err != nil {
		return nil, err
	}
	if packages.PrintErrors(pkgs) > 0 {
		return nil, fmt.Errorf("packages contain errors")
	}
	w.fset = pkgs[0].Fset
	// x/tools v0.29 binds the identifier on the left of `x = T{...}` / `x := T{...}` (slice or map
	// literal) to the variable's value *before* the assignment (an address reference resolved by
	// lifting); the literal's own DebugRef carries the new value. Record ident position -> literal.
	w.litOfLHS = map[token.Pos]ast.Expr{}
	for _, p := range pkgs {
		for _, f := range p.Syntax {
			ast.Inspect(f, func(n ast.Node) bool {
				switch s := n.(type) {
				case *ast.AssignStmt:
					if len(s.Lhs) == len(s.Rhs) {
						for i, l := range s.Lhs {
							if id, ok := l.(*ast.Ident); ok {
								if cl, ok := ast.Unparen(s.Rhs[i]).(*ast.CompositeLit); ok {
									w.litOfLHS[id.Pos()] = cl
								}
							}
						}
					}
				case *ast.ValueSpec:
					if len(s.Names) == len(s.Values) {
						for i, id := range s.Names {
							if cl, ok := ast.Unparen(s.Values[i]).(*ast.CompositeLit); ok {
								w.litOfLHS[id.Pos()] = cl
							}
						}
					}
				}
				return true
			})
		}
	}
	prog, spkgs := ssautil.AllPackages(pkgs, ssa.GlobalDebug)
	prog.Build()
	w.prog = prog
	for _, sp := range spkgs {
		if sp == nil {
			continue
		}
		w.pkgs = append(w.pkgs, sp)
		w.repoPkgs[sp.Pkg] = true
		if sp.Pkg.Name() == "bluemonday" {
			w.root = sp.Pkg
		}
	}
	for _, p := range prog.AllPackages() {
		if _, ok := w.allPkgs[p.Pkg.Name()]; !ok || w.repoPkgs[p.Pkg] {
			w.allPkgs[p.Pkg.Name()] = p.Pkg
		}
	}
	// collect repo functions (incl. methods and anonymous functions)
	for fn := range ssautil.AllFunctions(prog) {
		if fn.Pkg == nil || !w.repoPkgs[fn.Pkg.Pkg] || fn.Blocks == nil {
			continue
		}
		if fn.Synthetic != "" && fn.Name() != "init" {
			continue
		}
		w.funcs[funcKey(fn)] = fn
	}
	// methods of repo types that nothing in the program calls are not in AllFunctions: add them
	for _, sp := range w.pkgs {
		for _, m := range sp.Members {
			tm, ok := m.(*ssa.Type)
			if !ok {
				continue
			}
			for _, t := range []types.Type{tm.Type(), types.NewPointer(tm.Type())} {
				ms := prog.MethodSets.MethodSet(t)
				for i := 0; i < ms.Len(); i++ {
					fn := prog.MethodValue(ms.At(i))
					if fn == nil || fn.Blocks == nil || fn.Synthetic != "" || fn.Pkg == nil || !w.repoPkgs[fn.Pkg.Pkg] {
						continue
					}
					if _, ok := w.funcs[funcKey(fn)]; !ok {
						w.funcs[funcKey(fn)] = fn
					}
				}
			}
		}
	}
	for _, k := range sortedKeys(w.funcs) {
		w.funcList = append(w.funcList, w.funcs[k])
	}
	w.findInitNonNil()
	// specs
	w.heapSorts[heapAlloc] = "Int" // allocation clock: r is allocated iff birth(r) < now
	w.specs = NewSpecs()
	for _, d := range specDirs {
		var files []string
		filepath.Walk(d, func(p string, info os.FileInfo, err error) error {
			if err == nil && !info.IsDir() && strings.HasSuffix(p, ".spec") {
				files = append(files, p)
			}
			return nil
		})
		sort.Strings(files)
		for _, f := range files {
			if err := w.specs.LoadFile(f, ""); err != nil {
				return nil, err
			}
		}
	}
	// contract files inside the repo (comment-only, build tag verif)
	var cfiles []string
	filepath.Walk(repo, func(p string, info os.FileInfo, err error) error {
		if err == nil && !info.IsDir() && strings.HasSuffix(p, "contracts_verif.go") {
			cfiles = append(cfiles, p)
		}
		return nil
	})
	sort.Strings(cfiles)
	for _, f := range cfiles {
		if err := w.specs.LoadFile(f, "//@"); err != nil {
			return nil, err
		}
	}
	return w, nil
}

// ---------------------------------------------------------------------
// sorts

func q(s string) string { return "|" + s + "|" }

func (w *World) tyid(t types.Type) string {
	switch u := t.(type) {
	case *types.Named:
		if u.Obj().Pkg() == nil {
			return u.Obj().Name()
		}
		if _, ok := u.Underlying().(*types.Struct); ok {
			return u.Obj().Pkg().Name() + "." + u.Obj().Name()
		}
		if _, ok := u.Underlying().(*types.Interface); ok {
			return "iface"
		}
		return w.tyid(u.Underlying())
	case *types.Alias:
		return w.tyid(types.Unalias(u))
	case *types.Basic:
		switch {
		case u.Info()&types.IsInteger != 0:
			if u.Kind() == types.Uint8 {
				return "byte"
			}
			return "int"
		case u.Info()&types.IsBoolean != 0:
			return "bool"
		case u.Info()&types.IsString != 0:
			return "string"
		case u.Info()&types.IsFloat != 0:
			return "float"
		}
		return u.Name()
	case *types.Pointer:
		return "p_" + w.tyid(u.Elem())
	case *types.Slice:
		return "sl_" + w.tyid(u.Elem())
	case *types.Array:
		return fmt.Sprintf("a%d_%s", u.Len(), w.tyid(u.Elem()))
	case *types.Map:
		return "m_" + w.tyid(u.Key()) + "_" + w.tyid(u.Elem())
	case *types.Signature:
		return "fn"
	case *types.Interface:
		return "iface"
	case *types.Chan:
		return "chan"
	case *types.Struct:
		if u.NumFields() == 0 {
			return "unit"
		}
		var fs []string
		for i := 0; i < u.NumFields(); i++ {
			fs = append(fs, u.Field(i).Name()+":"+w.tyid(u.Field(i).Type()))
		}
		return "anon{" + strings.Join(fs, ",") + "}"
	case *types.Tuple:
		return "tuple"
	}
	return strings.NewReplacer(" ", "_", "|", "!").Replace(t.String())
}

// sortOf maps a Go type to an SMT sort, declaring datatypes on demand.
func (w *World) sortOf(t types.Type) string {
	switch u := t.Underlying().(type) {
	case *types.Basic:
		switch {
		case u.Info()&types.IsBoolean != 0:
			return "Bool"
		case u.Info()&types.IsString != 0:
			return "Str"
		case u.Info()&types.IsInteger != 0:
			return "Int"
		case u.Info()&types.IsFloat != 0:
			return "Real"
		}
		return "Ref"
	case *types.Pointer, *types.Map, *types.Chan, *types.Signature, *types.Interface:
		return "Ref"
	case *types.Slice:
		return "Slice"
	case *types.Array:
		return "(Array Int " + w.sortOf(u.Elem()) + ")"
	case *types.Struct:
		name := "S." + w.tyid(t)
		if !w.dtSeen[name] {
			w.dtSeen[name] = true
			var fs []string
			for i := 0; i < u.NumFields(); i++ {
				fs = append(fs, fmt.Sprintf("(%s %s)", q(name+"."+fldName(u, i)), w.sortOf(u.Field(i).Type())))
			}
			w.dtDecls = append(w.dtDecls, fmt.Sprintf("(declare-datatypes ((%s 0)) (((%s %s))))", q(name), q("mk."+name), strings.Join(fs, " ")))
		}
		return q(name)
	case *types.Tuple:
		panic("sortOf tuple")
	}
	panic("sortOf: unsupported type " + t.String())
}

// fldName is the name of field i used in SMT identifiers: blank fields ("_", of which a struct may have several)
// are numbered so that accessor and heap names stay distinct.
func fldName(st *types.Struct, i int) string {
	if n := st.Field(i).Name(); n != "_" {
		return n
	}
	return fmt.Sprintf("_%d", i)
}

func structOf(t types.Type) *types.Struct {
	t = t.Underlying()
	if p, ok := t.(*types.Pointer); ok {
		t = p.Elem().Underlying()
	}
	st, _ := t.(*types.Struct)
	return st
}

func derefType(t types.Type) types.Type {
	if p, ok := t.Underlying().(*types.Pointer); ok {
		return p.Elem()
	}
	return nil
}

// zero value term of a type
func (w *World) zero(t types.Type) string {
	switch u := t.Underlying().(type) {
	case *types.Basic:
		switch {
		case u.Info()&types.IsBoolean != 0:
			return "false"
		case u.Info()&types.IsString != 0:
			return strLit("")
		case u.Info()&types.IsInteger != 0:
			return "0"
		case u.Info()&types.IsFloat != 0:
			return "0.0"
		}
		return "nil"
	case *types.Slice:
		return "nilslice"
	case *types.Array:
		return fmt.Sprintf("((as const %s) %s)", w.sortOf(t), w.zero(u.Elem()))
	case *types.Struct:
		name := "S." + w.tyid(t)
		w.sortOf(t)
		if u.NumFields() == 0 {
			return q("mk." + name)
		}
		var fs []string
		for i := 0; i < u.NumFields(); i++ {
			fs = append(fs, w.zero(u.Field(i).Type()))
		}
		return "(" + q("mk."+name) + " " + strings.Join(fs, " ") + ")"
	}
	return "nil"
}

// structSel gives the selector application for field i of a struct value term.
func (w *World) structSel(t types.Type, i int, v string) string {
	st := t.Underlying().(*types.Struct)
	w.sortOf(t)
	return fmt.Sprintf("(%s %s)", q("S."+w.tyid(t)+"."+fldName(st, i)), v)
}

// structUpd gives a struct value equal to v except field i = nv.
func (w *World) structUpd(t types.Type, i int, v, nv string) string {
	st := t.Underlying().(*types.Struct)
	w.sortOf(t)
	var fs []string
	for j := 0; j < st.NumFields(); j++ {
		if j == i {
			fs = append(fs, nv)
		} else {
			fs = append(fs, w.structSel(t, j, v))
		}
	}
	return "(" + q("mk.S."+w.tyid(t)) + " " + strings.Join(fs, " ") + ")"
}

// heap names ------------------------------------------------------------

func (w *World) heapField(structT types.Type, i int) string {
	st := structT.Underlying().(*types.Struct)
	name := "F." + w.tyid(structT) + "." + fldName(st, i)
	if _, ok := w.heapSorts[name]; !ok {
		w.heapSorts[name] = "(Array Ref " + w.sortOf(st.Field(i).Type()) + ")"
		w.heapMeta[name] = st.Field(i).Type()
	}
	return name
}

func (w *World) heapArr(elem types.Type) string {
	name := "A." + w.tyid(elem)
	if _, ok := w.heapSorts[name]; !ok {
		w.heapSorts[name] = "(Array Ref (Array Int " + w.sortOf(elem) + "))"
		w.heapMeta[name] = elem
	}
	return name
}

func (w *World) heapCell(t types.Type) string {
	name := "C." + w.tyid(t)
	if _, ok := w.heapSorts[name]; !ok {
		w.heapSorts[name] = "(Array Ref " + w.sortOf(t) + ")"
		w.heapMeta[name] = t
	}
	return name
}

func (w *World) heapMapDom(m *types.Map) string {
	name := "MD." + w.tyid(m)
	if _, ok := w.heapSorts[name]; !ok {
		w.heapSorts[name] = "(Array Ref (Array " + w.sortOf(m.Key()) + " Bool))"
		w.heapMeta[name] = m
	}
	return name
}

func (w *World) heapMapVal(m *types.Map) string {
	name := "MV." + w.tyid(m)
	if _, ok := w.heapSorts[name]; !ok {
		w.heapSorts[name] = "(Array Ref (Array " + w.sortOf(m.Key()) + " " + w.sortOf(m.Elem()) + "))"
		w.heapMeta[name] = m
	}
	return name
}

func (w *World) heapGlobal(g *ssa.Global) string {
	name := "G." + g.Pkg.Pkg.Name() + "." + g.Name()
	if _, ok := w.heapSorts[name]; !ok {
		w.heapSorts[name] = w.sortOf(derefType(g.Type()))
	}
	return name
}

func (w *World) heapGhost(name string) (string, error) {
	gh, ok := w.specs.Ghosts[name]
	if !ok {
		return "", fmt.Errorf("unknown ghost %s", name)
	}
	h := "gh." + name
	if _, ok := w.heapSorts[h]; !ok {
		st, err := w.parseSType(gh.Type)
		if err != nil {
			return "", err
		}
		w.heapSorts[h] = w.stypeSort(st)
	}
	return h, nil
}

const heapAlloc = "alloc"

func isRefHeap(sort string) bool { return strings.HasPrefix(sort, "(Array Ref ") }

// ---------------------------------------------------------------------
// spec types: Go types or abstract sorts

type SType struct {
	T    types.Type
	Abs  string     // abstract sort (declared with `sort`) or raw SMT sort
	Elem types.Type // for seq[T]: the Go element type of a raw (Array Int T)
}

func (s SType) String() string {
	if s.T != nil {
		return typeStr(s.T)
	}
	return s.Abs
}

func (w *World) stypeSort(s SType) string {
	if s.T != nil {
		return w.sortOf(s.T)
	}
	return s.Abs
}

func (w *World) parseSType(src string) (SType, error) {
	src = strings.TrimSpace(src)
	for _, a := range w.specs.Sorts {
		if a == src {
			return SType{Abs: src}, nil
		}
	}
	switch src {
	case "Ref":
		return SType{Abs: "Ref"}, nil
	case "Int":
		return SType{T: types.Typ[types.Int]}, nil
	}
	if strings.HasPrefix(src, "(") { // raw SMT sort
		return SType{Abs: src}, nil
	}
	if strings.HasPrefix(src, "seq[") && strings.HasSuffix(src, "]") { // raw contents of a []T
		et, err := w.parseGoType(src[4 : len(src)-1])
		if err != nil {
			return SType{}, err
		}
		return SType{Abs: "(Array Int " + w.sortOf(et) + ")", Elem: et}, nil
	}
	t, err := w.parseGoType(src)
	if err != nil {
		return SType{}, err
	}
	return SType{T: t}, nil
}

func (w *World) parseGoType(src string) (types.Type, error) {
	src = strings.TrimSpace(src)
	switch {
	case strings.HasPrefix(src, "*"):
		e, err := w.parseGoType(src[1:])
		if err != nil {
			return nil, err
		}
		return types.NewPointer(e), nil
	case strings.HasPrefix(src, "[]"):
		e, err := w.parseGoType(src[2:])
		if err != nil {
			return nil, err
		}
		return types.NewSlice(e), nil
	case strings.HasPrefix(src, "map["):
		depth := 0
		for i := 3; i < len(src); i++ {
			if src[i] == '[' {
				depth++
			}
			if src[i] == ']' {
				depth--
				if depth == 0 {
					k, err := w.parseGoType(src[4:i])
					if err != nil {
						return nil, err
					}
					v, err := w.parseGoType(src[i+1:])
					if err != nil {
						return nil, err
					}
					return types.NewMap(k, v), nil
				}
			}
		}
		return nil, fmt.Errorf("bad map type %q", src)
	case src == "struct{}":
		return types.NewStruct(nil, nil), nil
	case strings.HasPrefix(src, "func("):
		depth, end := 0, -1
		for i := 4; i < len(src); i++ {
			if src[i] == '(' {
				depth++
			}
			if src[i] == ')' {
				depth--
				if depth == 0 {
					end = i
					break
				}
			}
		}
		if end < 0 {
			return nil, fmt.Errorf("bad func type %q", src)
		}
		var ps []*types.Var
		if inner := strings.TrimSpace(src[5:end]); inner != "" {
			for _, p := range splitTop(inner) {
				pt, err := w.parseGoType(p)
				if err != nil {
					return nil, err
				}
				ps = append(ps, types.NewVar(0, nil, "", pt))
			}
		}
		var rs []*types.Var
		if rest := strings.TrimSpace(src[end+1:]); rest != "" {
			rt, err := w.parseGoType(rest)
			if err != nil {
				return nil, err
			}
			rs = append(rs, types.NewVar(0, nil, "", rt))
		}
		return types.NewSignatureType(nil, nil, nil, types.NewTuple(ps...), types.NewTuple(rs...), false), nil
	}
	if i := strings.Index(src, "."); i >= 0 {
		p, ok := w.allPkgs[src[:i]]
		if !ok {
			return nil, fmt.Errorf("unknown package %q in type %q", src[:i], src)
		}
		o := p.Scope().Lookup(src[i+1:])
		if o == nil {
			return nil, fmt.Errorf("unknown type %q", src)
		}
		return o.Type(), nil
	}
	if o := types.Universe.Lookup(src); o != nil {
		if tn, ok := o.(*types.TypeName); ok {
			return tn.Type(), nil
		}
	}
	for _, p := range w.pkgs {
		if o := p.Pkg.Scope().Lookup(src); o != nil {
			if tn, ok := o.(*types.TypeName); ok {
				return tn.Type(), nil
			}
		}
	}
	return nil, fmt.Errorf("unknown type %q", src)
}

// string literals ---------------------------------------------------------

func strLit(s string) string {
	// readable where possible, hex otherwise
	ok := true
	for _, c := range s {
		if !(c >= 'a' && c <= 'z' || c >= 'A' && c <= 'Z' || c >= '0' && c <= '9' || strings.ContainsRune("-_.:/ ;=,+*()[]<>!?@#%&'^~{}", c)) {
			ok = false
		}
	}
	if ok {
		return "|str:" + s + "|"
	}
	return fmt.Sprintf("|strx:%x|", s)
}

// findInitNonNil: package-level variables of the repo that are assigned only
// in the package initialiser, from regexp.MustCompile / a map or slice literal.
func (w *World) findInitNonNil() {
	stores := map[*ssa.Global][]*ssa.Store{}
	for _, fn := range w.funcList {
		for _, b := range fn.Blocks {
			for _, in := range b.Instrs {
				if st, ok := in.(*ssa.Store); ok {
					if g, ok := st.Addr.(*ssa.Global); ok {
						stores[g] = append(stores[g], st)
					}
				}
			}
		}
	}
	for g, sts := range stores {
		if len(sts) != 1 || sts[0].Parent().Name() != "init" {
			continue
		}
		switch v := sts[0].Val.(type) {
		case *ssa.Call:
			if c := v.Common().StaticCallee(); c != nil && c.String() == "regexp.MustCompile" {
				w.initNonNil[g] = true
			}
		case *ssa.MakeMap, *ssa.Slice:
			w.initNonNil[g] = true
		}
	}
}
