package main

// Encoder: one acyclic segment of one function (from a cut point to the next
// cut points / returns) into SMT assertions + named obligations.

import (
	"fmt"
	"go/constant"
	"go/token"
	"go/types"
	"sort"
	"strings"

	"golang.org/x/tools/go/ssa"
)

type Obligation struct {
	Name    string   // semantic name
	Fn      string   // function key
	Kind    string   // pre post inv safety frame assert decreases unsupported
	As      string   // property whose clauses this obligation belongs to when it differs from the checked property
	Tags    []string // property ids
	Prefix  int      // number of assertions of enc that may be used
	Reach   string   // block reach term
	Goal    string   // SMT term that must hold
	Src     string   // source of the clause
	Pos     string   // file:line of the instruction
	enc     *Enc
	Segment string
	Block   *ssa.BasicBlock
	Raw     string // complete SMT-LIB script (string track); enc is nil
	Replay  func(r *OblResult, repo, verifDir string) (string, bool)
}

type Enc struct {
	w    *World
	fn   *ssa.Function
	spec *FuncSpec
	pass Pass
	fv   *FuncVerifier

	decls     map[string]string
	declOrder []string
	funDecls  map[string]string
	funOrder  []string
	asserts   []string
	assertBlk []*ssa.BasicBlock // block each assertion was emitted for (nil: global)
	obls      []*Obligation
	ver       map[string]int // newest version per heap (for fresh naming)
	cur       map[string]int // current version per heap
	segName   string
	fresh     int

	reach    map[*ssa.BasicBlock]string
	exitHeap map[*ssa.BasicBlock]map[string]int
	inSeg    map[*ssa.BasicBlock]bool
	curBlock *ssa.BasicBlock
	curInstr ssa.Instruction
	curIdx   int
	errs     []string
	dec0     map[*ssa.BasicBlock]string         // value of each loop's variant at its header
	loopPre  map[*ssa.BasicBlock]map[string]int // heap versions at entry to each loop (for pre(e))
	letLevel map[string]int                     // quantifier depth at which each macro let-name was introduced
	opaque   map[string]string                  // opaque define @ heap signature -> function symbol
	letDef   map[string]string                  // macro let-name -> bound term
	refVals  map[string][]string                // heap name -> reference terms of SSA values seen so far that index it
	refSeen  map[string]bool
	refBlk   map[string]*ssa.BasicBlock // block in which a registered reference term was first seen
	ancCache map[*ssa.BasicBlock]map[*ssa.BasicBlock]bool
	heapLog  map[string]bool // when non-nil: heap terms read during elaboration
}

func (e *Enc) errorf(f string, a ...interface{}) {
	msg := fmt.Sprintf(f, a...)
	if e.curInstr != nil {
		msg = fmt.Sprintf("%s: %s", e.w.fset.Position(e.curInstr.Pos()), msg)
	}
	e.errs = append(e.errs, msg)
}

func (e *Enc) declare(name, sort string) string {
	if _, ok := e.decls[name]; !ok {
		e.decls[name] = sort
		e.declOrder = append(e.declOrder, name)
	}
	return name
}

func (e *Enc) declareFun(name string, args []string, ret string) string {
	if _, ok := e.funDecls[name]; !ok {
		e.funDecls[name] = fmt.Sprintf("(declare-fun %s (%s) %s)", name, strings.Join(args, " "), ret)
		e.funOrder = append(e.funOrder, name)
	}
	return name
}

func (e *Enc) assume(s string) {
	e.asserts = append(e.asserts, s)
	e.assertBlk = append(e.assertBlk, e.curBlock)
}

func (e *Enc) freshName(base string) string {
	e.fresh++
	return fmt.Sprintf("%s!%d", base, e.fresh)
}

// heaps -----------------------------------------------------------------

func (e *Enc) heapSort(h string) string {
	s, ok := e.w.heapSorts[h]
	if !ok {
		if strings.HasPrefix(h, "it.") {
			return "" // set by caller through declare
		}
		panic("unknown heap " + h)
	}
	return s
}

func (e *Enc) heapAt(h string, v int) string {
	name := q(fmt.Sprintf("%s#%d", h, v))
	e.declare(name, e.w.heapSorts[h])
	return name
}

func (e *Enc) H(h string) string  { return e.heapAt(h, e.cur[h]) }
func (e *Enc) H0(h string) string { return e.heapAt(h, 0) }

// bump creates a new version of heap h and makes it current.
func (e *Enc) bump(h string) string {
	e.ver[h]++
	e.cur[h] = e.ver[h]
	return e.H(h)
}

func (e *Enc) setHeap(h, term string) {
	n := e.bump(h)
	e.assume(fmt.Sprintf("(= %s %s)", n, term))
}

// values ----------------------------------------------------------------

func (e *Enc) vname(v ssa.Value) string { return q("v." + v.Name()) }

func (e *Enc) val(v ssa.Value) string {
	switch x := v.(type) {
	case *ssa.Const:
		return e.constTerm(x)
	case *ssa.Function:
		n := q("fn:" + funcKey(x))
		if _, ok := e.decls[n]; !ok {
			e.declare(n, "Ref")
			e.assume(fmt.Sprintf("(not (= %s nil))", n))
		}
		return n
	case *ssa.Global:
		n := q("&" + e.w.heapGlobal(x))
		e.declare(n, "Ref")
		return n
	case *ssa.Builtin:
		e.errorf("builtin %s used as value", x.Name())
		return "nil"
	}
	if _, ok := v.Type().(*types.Tuple); ok {
		e.errorf("tuple value %s used directly", v.Name())
		return "nil"
	}
	n := e.vname(v)
	if _, ok := e.decls[n]; !ok {
		e.declare(n, e.w.sortOf(v.Type()))
		e.regVal(n, v.Type())
	}
	return n
}

// regVal registers the references inside a value so that every later heap
// update can state the (always valid) read-over-write instance for it.
func (e *Enc) regVal(term string, t types.Type) {
	w := e.w
	add := func(h, ref string) {
		k := h + "\x00" + ref
		if !e.refSeen[k] {
			e.refSeen[k] = true
			e.refVals[h] = append(e.refVals[h], ref)
			e.refBlk[k] = e.curBlock
		}
	}
	switch u := t.Underlying().(type) {
	case *types.Slice:
		add(w.heapArr(u.Elem()), "(s_arr "+term+")")
	case *types.Map:
		add(w.heapMapDom(u), term)
		add(w.heapMapVal(u), term)
	case *types.Pointer:
		switch pu := u.Elem().Underlying().(type) {
		case *types.Struct:
			for i := 0; i < pu.NumFields(); i++ {
				add(w.heapField(u.Elem(), i), term)
			}
		case *types.Array:
			add(w.heapArr(pu.Elem()), term)
		default:
			add(w.heapCell(u.Elem()), term)
		}
	}
}

// ancestors: blocks from which b is reachable in the acyclic CFG (back edges removed), incl. b
func (e *Enc) ancestors(b *ssa.BasicBlock) map[*ssa.BasicBlock]bool {
	if b == nil {
		return nil
	}
	if a, ok := e.ancCache[b]; ok {
		return a
	}
	anc := map[*ssa.BasicBlock]bool{b: true}
	stack := []*ssa.BasicBlock{b}
	for len(stack) > 0 {
		x := stack[len(stack)-1]
		stack = stack[:len(stack)-1]
		for _, p := range x.Preds {
			if e.fv.isBackEdge(p, x) || anc[p] {
				continue
			}
			anc[p] = true
			stack = append(stack, p)
		}
	}
	e.ancCache[b] = anc
	return anc
}

// storeRef: H' = store(H, ref, inner), plus the read-over-write instance for
// every reference value seen so far (valid array-theory lemmas, stated ground
// so that no chain of array axioms has to be discovered by the solver).
func (e *Enc) storeRef(h, ref, inner string) {
	old := e.H(h)
	nw := e.bump(h)
	e.assume(fmt.Sprintf("(= %s (store %s %s %s))", nw, old, ref, inner))
	anc := e.ancestors(e.curBlock)
	for _, x := range e.refVals[h] {
		if x == ref {
			continue
		}
		if b := e.refBlk[h+"\x00"+x]; b != nil && anc != nil && !anc[b] {
			continue // defined off every path to this block
		}
		e.assume(fmt.Sprintf("(=> (not (= %s %s)) (= (select %s %s) (select %s %s)))", ref, x, nw, x, old, x))
	}
}

func (e *Enc) tupleVal(v ssa.Value, i int) string {
	tt := v.Type().(*types.Tuple)
	n := q(fmt.Sprintf("v.%s.%d", v.Name(), i))
	if _, ok := e.decls[n]; !ok {
		e.declare(n, e.w.sortOf(tt.At(i).Type()))
		e.regVal(n, tt.At(i).Type())
	}
	return n
}

func (e *Enc) constTerm(c *ssa.Const) string {
	t := c.Type()
	if c.Value == nil {
		return e.w.zero(t)
	}
	switch u := t.Underlying().(type) {
	case *types.Basic:
		switch {
		case u.Info()&types.IsBoolean != 0:
			if constant.BoolVal(c.Value) {
				return "true"
			}
			return "false"
		case u.Info()&types.IsString != 0:
			return strLit(constant.StringVal(c.Value))
		case u.Info()&types.IsInteger != 0:
			s := c.Value.ExactString()
			if strings.HasPrefix(s, "-") {
				return "(- " + s[1:] + ")"
			}
			return s
		case u.Info()&types.IsFloat != 0:
			f, _ := constant.Float64Val(c.Value)
			return fmt.Sprintf("%f", f)
		}
	}
	e.errorf("unsupported constant %s", c)
	return "nil"
}

// pointers ----------------------------------------------------------------

type ptrKind int

const (
	pField  ptrKind = iota // field heap at object ref
	pElem                  // array heap at (ref, idx)
	pCell                  // cell heap at ref
	pGlobal                // package-level variable
	pSub                   // field of a struct value stored at parent
	pObj                   // whole struct object: all field heaps at ref
)

type Ptr struct {
	kind   ptrKind
	heap   string
	ref    string
	idx    string
	parent *Ptr
	field  int
	typ    types.Type // type of the pointee
}

func isInterior(v ssa.Value) bool {
	switch v.(type) {
	case *ssa.FieldAddr, *ssa.IndexAddr:
		return true
	}
	return false
}

func (e *Enc) ptrOf(v ssa.Value) *Ptr {
	switch x := v.(type) {
	case *ssa.FieldAddr:
		stT := derefType(x.X.Type())
		st := stT.Underlying().(*types.Struct)
		ft := st.Field(x.Field).Type()
		if isInterior(x.X) {
			return &Ptr{kind: pSub, parent: e.ptrOf(x.X), field: x.Field, typ: ft}
		}
		return &Ptr{kind: pField, heap: e.w.heapField(stT, x.Field), ref: e.val(x.X), typ: ft}
	case *ssa.IndexAddr:
		switch u := x.X.Type().Underlying().(type) {
		case *types.Slice:
			s := e.val(x.X)
			return &Ptr{kind: pElem, heap: e.w.heapArr(u.Elem()), ref: "(s_arr " + s + ")", idx: fmt.Sprintf("(addi (s_off %s) %s)", s, e.val(x.Index)), typ: u.Elem()}
		case *types.Pointer:
			at := u.Elem().Underlying().(*types.Array)
			if isInterior(x.X) {
				e.errorf("array inside aggregate not supported")
			}
			return &Ptr{kind: pElem, heap: e.w.heapArr(at.Elem()), ref: e.val(x.X), idx: e.val(x.Index), typ: at.Elem()}
		}
		e.errorf("unsupported IndexAddr base %s", x.X.Type())
		return &Ptr{kind: pCell, heap: e.w.heapCell(types.Typ[types.Int]), ref: "nil", typ: types.Typ[types.Int]}
	case *ssa.Global:
		return &Ptr{kind: pGlobal, heap: e.w.heapGlobal(x), typ: derefType(x.Type())}
	}
	pt := derefType(v.Type())
	if pt == nil {
		e.errorf("ptrOf non-pointer %s", v.Type())
		return &Ptr{kind: pCell, heap: e.w.heapCell(types.Typ[types.Int]), ref: "nil", typ: types.Typ[types.Int]}
	}
	switch pt.Underlying().(type) {
	case *types.Struct:
		return &Ptr{kind: pObj, ref: e.val(v), typ: pt}
	case *types.Array:
		e.errorf("load/store of whole array not supported")
	}
	return &Ptr{kind: pCell, heap: e.w.heapCell(pt), ref: e.val(v), typ: pt}
}

// rootRef gives the object reference whose contents a store through p changes ("" for globals).
func (p *Ptr) rootRef() string {
	switch p.kind {
	case pSub:
		return p.parent.rootRef()
	case pGlobal:
		return ""
	}
	return p.ref
}

func (p *Ptr) heaps(w *World) []string {
	switch p.kind {
	case pSub:
		return p.parent.heaps(w)
	case pObj:
		st := p.typ.Underlying().(*types.Struct)
		var hs []string
		for i := 0; i < st.NumFields(); i++ {
			hs = append(hs, w.heapField(p.typ, i))
		}
		return hs
	}
	return []string{p.heap}
}

func (e *Enc) load(p *Ptr) string {
	switch p.kind {
	case pField, pCell:
		return fmt.Sprintf("(select %s %s)", e.H(p.heap), p.ref)
	case pElem:
		return fmt.Sprintf("(select (select %s %s) %s)", e.H(p.heap), p.ref, p.idx)
	case pGlobal:
		return e.H(p.heap)
	case pSub:
		return e.w.structSel(e.parentStructType(p), p.field, e.load(p.parent))
	case pObj:
		st := p.typ.Underlying().(*types.Struct)
		e.w.sortOf(p.typ)
		if st.NumFields() == 0 {
			return e.w.zero(p.typ)
		}
		var fs []string
		for i := 0; i < st.NumFields(); i++ {
			fs = append(fs, fmt.Sprintf("(select %s %s)", e.H(e.w.heapField(p.typ, i)), p.ref))
		}
		return "(" + q("mk.S."+e.w.tyid(p.typ)) + " " + strings.Join(fs, " ") + ")"
	}
	panic("load")
}

func (e *Enc) parentStructType(p *Ptr) types.Type { return p.parent.typ }

func (e *Enc) store(p *Ptr, v string) {
	switch p.kind {
	case pField, pCell:
		e.storeRef(p.heap, p.ref, v)
	case pElem:
		e.storeRef(p.heap, p.ref, fmt.Sprintf("(store (select %s %s) %s %s)", e.H(p.heap), p.ref, p.idx, v))
	case pGlobal:
		e.setHeap(p.heap, v)
	case pSub:
		e.store(p.parent, e.w.structUpd(p.parent.typ, p.field, e.load(p.parent), v))
	case pObj:
		st := p.typ.Underlying().(*types.Struct)
		for i := 0; i < st.NumFields(); i++ {
			h := e.w.heapField(p.typ, i)
			e.storeRef(h, p.ref, e.w.structSel(p.typ, i, v))
		}
	}
}

// well-formedness facts of a freshly introduced (unconstrained) value
func (e *Enc) wfValue(term string, t types.Type, guard string) {
	var facts []string
	switch u := t.Underlying().(type) {
	case *types.Slice:
		facts = append(facts, fmt.Sprintf("(>= (s_len %s) 0)", term), fmt.Sprintf("(>= (s_off %s) 0)", term),
			fmt.Sprintf("(or (= (s_arr %s) nil) (isalloc %s (s_arr %s)))", term, e.H(heapAlloc), term),
			fmt.Sprintf("(=> (= (s_arr %s) nil) (= (s_len %s) 0))", term, term))
	case *types.Pointer, *types.Map, *types.Interface, *types.Signature, *types.Chan:
		facts = append(facts, fmt.Sprintf("(or (= %s nil) (isalloc %s %s))", term, e.H(heapAlloc), term))
	case *types.Struct:
		for i := 0; i < u.NumFields(); i++ {
			switch u.Field(i).Type().Underlying().(type) {
			case *types.Slice, *types.Pointer, *types.Map, *types.Interface:
				e.wfValue(e.w.structSel(t, i, term), u.Field(i).Type(), guard)
			}
		}
	}
	for _, f := range facts {
		if guard != "" {
			f = fmt.Sprintf("(=> %s %s)", guard, f)
		}
		e.assume(f)
	}
}

// constArray: an Int-indexed array that is `zero` everywhere. cvc5 accepts
// (as const ...) only for values, so non-literal zeros get an axiomatised constant.
func (e *Enc) constArray(elemSort, zero string) string {
	switch zero {
	case "false", "true", "0", "0.0":
		return fmt.Sprintf("((as const (Array Int %s)) %s)", elemSort, zero)
	}
	name := q("zarr." + strings.Trim(elemSort, "|"))
	if _, ok := e.decls[name]; !ok {
		e.declare(name, "(Array Int "+elemSort+")")
		e.assume(fmt.Sprintf("(forall ((i Int)) (! (= (select %s i) %s) :pattern ((select %s i))))", name, zero, name))
	}
	return name
}

func (e *Enc) newRef(name string) string {
	r := e.declare(name, "Ref")
	a := e.H(heapAlloc)
	e.assume(fmt.Sprintf("(not (= %s nil))", r))
	e.assume(fmt.Sprintf("(= (birth %s) %s)", r, a))
	e.setHeap(heapAlloc, fmt.Sprintf("(+ %s 1)", a))
	return r
}

// obligations -------------------------------------------------------------

func (e *Enc) pos() string {
	if e.curInstr != nil && e.curInstr.Pos() != token.NoPos {
		p := e.w.fset.Position(e.curInstr.Pos())
		return fmt.Sprintf("%s:%d", shortFile(p.Filename), p.Line)
	}
	return ""
}

func shortFile(f string) string {
	i := strings.LastIndex(f, "/")
	if i >= 0 {
		j := strings.LastIndex(f[:i], "/")
		return f[j+1:]
	}
	return f
}

func (e *Enc) oblige(kind, name, goal string, tags []string, src string) {
	// select by pass: the obligation is generated only if its tags are active
	if !e.pass.Active(tags) {
		return
	}
	props, _ := splitTagKinds(tags)
	e.obls = append(e.obls, &Obligation{Name: name, Fn: funcKey(e.fn), Kind: kind, Tags: props, Prefix: len(e.asserts),
		Reach: e.reach[e.curBlock], Goal: goal, Src: src, Pos: e.pos(), enc: e, Segment: e.segName, Block: e.curBlock})
}

func (e *Enc) safety(what, goal string) {
	e.oblige("safety", fmt.Sprintf("safety/%s@%s", what, e.siteLabel()), goal, []string{"C14"}, what)
}

// siteLabel: a semantic (line-free) label for the current instruction:
// block comment chain + ordinal of this kind of instruction in function.
func (e *Enc) siteLabel() string {
	return e.fv.siteLabels[e.curInstr]
}

// frame obligation for a write to object `ref`
func (e *Enc) frameWrite(ref string, what string, heap string) {
	if ref == "" {
		if e.fv.hasModSpec() {
			e.oblige("frame", fmt.Sprintf("frame/%s@%s", what, e.siteLabel()), "false", e.fv.modTags(), "write to package-level variable")
		}
		return
	}
	if !e.fv.hasModSpec() {
		return
	}
	goal := fmt.Sprintf("(or (not (isalloc %s %s)) %s)", e.H0(heapAlloc), ref, e.fv.modPred(e, ref, heap))
	e.oblige("frame", fmt.Sprintf("frame/%s@%s", what, e.siteLabel()), goal, e.fv.modTags(), "modifies clause of "+funcKey(e.fn))
}

// -------------------------------------------------------------------------
// instruction encoding

func (e *Enc) defVal(v ssa.Value, term string) {
	e.assume(fmt.Sprintf("(= %s %s)", e.val(v), term))
}

func (e *Enc) instr(in ssa.Instruction) {
	w := e.w
	switch x := in.(type) {
	case *ssa.DebugRef:
	case *ssa.Alloc:
		r := e.newRef(e.vname(x))
		et := derefType(x.Type())
		switch u := et.Underlying().(type) {
		case *types.Struct:
			for i := 0; i < u.NumFields(); i++ {
				h := w.heapField(et, i)
				e.storeRef(h, r, w.zero(u.Field(i).Type()))
			}
		case *types.Array:
			h := w.heapArr(u.Elem())
			// zero-initialise element by element over an otherwise unconstrained
			// array (only indices 0..N-1 are ever accessible)
			arr := e.declare(q("arr0."+x.Name()), "(Array Int "+w.sortOf(u.Elem())+")")
			if u.Len() > 0 {
				if z := w.zero(u.Elem()); z == "false" || z == "0" || z == "true" {
					arr = e.constArray(w.sortOf(u.Elem()), z)
				} else {
					for i := int64(0); i < u.Len() && i < 512; i++ {
						arr = fmt.Sprintf("(store %s %d %s)", arr, i, z)
					}
				}
			}
			e.storeRef(h, r, arr)
		default:
			h := w.heapCell(et)
			e.storeRef(h, r, w.zero(et))
		}
	case *ssa.FieldAddr:
		if !isInterior(x.X) {
			e.safety("nil-deref", fmt.Sprintf("(not (= %s nil))", e.val(x.X)))
		}
		e.checkInteriorUses(x)
	case *ssa.IndexAddr:
		switch u := x.X.Type().Underlying().(type) {
		case *types.Slice:
			s := e.val(x.X)
			e.safety("index", fmt.Sprintf("(and (<= 0 %s) (< %s (s_len %s)))", e.val(x.Index), e.val(x.Index), s))
		case *types.Pointer:
			at := u.Elem().Underlying().(*types.Array)
			if _, isConst := x.Index.(*ssa.Const); !isConst {
				e.safety("index", fmt.Sprintf("(and (<= 0 %s) (< %s %d))", e.val(x.Index), e.val(x.Index), at.Len()))
			}
		}
		e.checkInteriorUses(x)
	case *ssa.UnOp:
		switch x.Op {
		case token.MUL:
			p := e.ptrOf(x.X)
			if p.kind == pObj || p.kind == pCell {
				e.safety("nil-deref", fmt.Sprintf("(not (= %s nil))", p.ref))
			}
			e.defVal(x, e.load(p))
			e.wfValue(e.val(x), x.Type(), "")
			if g, ok := x.X.(*ssa.Global); ok && e.w.initNonNil[g] {
				if e.w.sortOf(x.Type()) == "Ref" {
					e.assume(fmt.Sprintf("(not (= %s nil))", e.val(x)))
				}
			}
		case token.NOT:
			e.defVal(x, fmt.Sprintf("(not %s)", e.val(x.X)))
		case token.SUB:
			e.defVal(x, fmt.Sprintf("(- %s)", e.val(x.X)))
		default:
			e.errorf("unsupported unary op %s", x.Op)
		}
	case *ssa.Store:
		p := e.ptrOf(x.Addr)
		if p.kind == pObj || p.kind == pCell {
			e.safety("nil-deref", fmt.Sprintf("(not (= %s nil))", p.ref))
		}
		e.frameWrite(p.rootRef(), "store", p.heaps(e.w)[0])
		e.store(p, e.val(x.Val))
	case *ssa.BinOp:
		e.binop(x)
	case *ssa.Phi:
		// handled by block entry
	case *ssa.Call:
		e.call(x, x.Common())
	case *ssa.ChangeInterface:
		e.defVal(x, e.val(x.X))
	case *ssa.ChangeType:
		e.defVal(x, e.val(x.X))
	case *ssa.MakeInterface:
		if w.sortOf(x.X.Type()) == "Ref" {
			e.defVal(x, e.val(x.X))
		} else {
			f := e.declareFun(q("box."+w.tyid(x.X.Type())), []string{w.sortOf(x.X.Type())}, "Ref")
			e.defVal(x, fmt.Sprintf("(%s %s)", f, e.val(x.X)))
			e.assume(fmt.Sprintf("(not (= %s nil))", e.val(x)))
		}
	case *ssa.Convert:
		e.convert(x)
	case *ssa.Extract:
		e.defVal(x, e.tupleVal(x.Tuple, x.Index))
	case *ssa.Field:
		e.defVal(x, w.structSel(x.X.Type(), x.Field, e.val(x.X)))
	case *ssa.Index:
		switch u := x.X.Type().Underlying().(type) {
		case *types.Array:
			e.safety("index", fmt.Sprintf("(and (<= 0 %s) (< %s %d))", e.val(x.Index), e.val(x.Index), u.Len()))
			e.defVal(x, fmt.Sprintf("(select %s %s)", e.val(x.X), e.val(x.Index)))
		case *types.Basic:
			s, i := e.val(x.X), e.val(x.Index)
			e.safety("index", fmt.Sprintf("(and (<= 0 %s) (< %s (slen %s)))", i, i, s))
			e.defVal(x, fmt.Sprintf("(sbyte %s %s)", s, i))
			e.assume(fmt.Sprintf("(and (<= 0 %s) (< %s 256))", e.val(x), e.val(x)))
		default:
			e.errorf("unsupported Index on %s", x.X.Type())
		}
	case *ssa.Lookup:
		switch u := x.X.Type().Underlying().(type) {
		case *types.Map:
			m, k := e.val(x.X), e.val(x.Index)
			dom := fmt.Sprintf("(and (not (= %s nil)) (select (select %s %s) %s))", m, e.H(w.heapMapDom(u)), m, k)
			vv := fmt.Sprintf("(select (select %s %s) %s)", e.H(w.heapMapVal(u)), m, k)
			if x.CommaOk {
				e.assume(fmt.Sprintf("(= %s %s)", e.tupleVal(x, 1), dom))
				e.assume(fmt.Sprintf("(= %s (ite %s %s %s))", e.tupleVal(x, 0), e.tupleVal(x, 1), vv, w.zero(u.Elem())))
				e.wfValue(e.tupleVal(x, 0), u.Elem(), "")
			} else {
				e.defVal(x, fmt.Sprintf("(ite %s %s %s)", dom, vv, w.zero(u.Elem())))
				e.wfValue(e.val(x), u.Elem(), "")
			}
		case *types.Basic: // string index
			s, i := e.val(x.X), e.val(x.Index)
			e.safety("index", fmt.Sprintf("(and (<= 0 %s) (< %s (slen %s)))", i, i, s))
			e.defVal(x, fmt.Sprintf("(sbyte %s %s)", s, i))
			e.assume(fmt.Sprintf("(and (<= 0 %s) (< %s 256))", e.val(x), e.val(x)))
		default:
			e.errorf("unsupported Lookup on %s", x.X.Type())
		}
	case *ssa.MakeMap:
		r := e.newRef(e.vname(x))
		mt := x.Type().Underlying().(*types.Map)
		h := w.heapMapDom(mt)
		w.heapMapVal(mt)
		e.storeRef(h, r, fmt.Sprintf("((as const (Array %s Bool)) false)", w.sortOf(mt.Key())))
	case *ssa.MakeSlice:
		st := x.Type().Underlying().(*types.Slice)
		r := e.newRef(q("arr." + x.Name()))
		h := w.heapArr(st.Elem())
		if c, ok := x.Len.(*ssa.Const); ok && c.Int64() == 0 {
			// empty slice: contents irrelevant
			e.storeRef(h, r, e.declare(q("arr0."+x.Name()), "(Array Int "+w.sortOf(st.Elem())+")"))
		} else {
			e.storeRef(h, r, e.constArray(w.sortOf(st.Elem()), w.zero(st.Elem())))
		}
		e.safety("makeslice-len", fmt.Sprintf("(>= %s 0)", e.val(x.Len)))
		e.defVal(x, fmt.Sprintf("(mk_slice %s 0 %s)", r, e.val(x.Len)))
	case *ssa.MakeClosure:
		r := e.newRef(e.vname(x))
		_ = r
	case *ssa.MapUpdate:
		mt := x.Map.Type().Underlying().(*types.Map)
		m, k, v := e.val(x.Map), e.val(x.Key), e.val(x.Value)
		e.safety("nil-map-write", fmt.Sprintf("(not (= %s nil))", m))
		hd, hv := w.heapMapDom(mt), w.heapMapVal(mt)
		e.frameWrite(m, "mapupdate", hd)
		e.storeRef(hd, m, fmt.Sprintf("(store (select %s %s) %s true)", e.H(hd), m, k))
		e.storeRef(hv, m, fmt.Sprintf("(store (select %s %s) %s %s)", e.H(hv), m, k, v))
	case *ssa.Range:
		switch u := x.X.Type().Underlying().(type) {
		case *types.Map:
			h := e.iterHeap(x)
			e.setHeap(h, fmt.Sprintf("((as const (Array %s Bool)) false)", w.sortOf(u.Key())))
		case *types.Basic:
			h := e.iterHeap(x)
			e.setHeap(h, "0")
		default:
			e.errorf("unsupported range over %s", x.X.Type())
		}
	case *ssa.Next:
		e.next(x)
	case *ssa.Slice:
		e.slice(x)
	case *ssa.TypeAssert:
		if !x.CommaOk {
			e.oblige("unsupported", "unsupported/typeassert@"+e.siteLabel(), "false", []string{"C14"}, "type assertion without comma-ok may panic")
			e.defVal(x, e.val(x.X))
			return
		}
		ok := e.tupleVal(x, 1)
		v := e.tupleVal(x, 0)
		if w.sortOf(x.AssertedType) == "Ref" {
			e.assume(fmt.Sprintf("(= %s (ite %s %s nil))", v, ok, e.val(x.X)))
			e.assume(fmt.Sprintf("(=> %s (not (= %s nil)))", ok, e.val(x.X)))
		}
	case *ssa.Return:
		e.ret(x)
	case *ssa.Panic:
		e.oblige("safety", "safety/explicit-panic@"+e.siteLabel(), "false", []string{"C14"}, "panic reachable")
	case *ssa.If, *ssa.Jump:
		// edges handled by block walker
	case *ssa.RunDefers:
	default:
		e.errorf("unsupported instruction %T: %s", in, in)
		e.oblige("unsupported", "unsupported/"+fmt.Sprintf("%T", in)+"@"+e.siteLabel(), "false", nil, in.String())
	}
}

// interior pointers may only be used as bases of further addressing, loads and stores
func (e *Enc) checkInteriorUses(v ssa.Value) {
	for _, r := range *v.Referrers() {
		switch u := r.(type) {
		case *ssa.FieldAddr, *ssa.IndexAddr, *ssa.DebugRef:
		case *ssa.UnOp:
			if u.Op != token.MUL {
				e.errorf("interior pointer %s escapes via %s", v.Name(), r)
			}
		case *ssa.Store:
			if u.Addr != v {
				e.errorf("interior pointer %s stored", v.Name())
			}
		default:
			e.errorf("interior pointer %s escapes via %T", v.Name(), r)
		}
	}
}

func (e *Enc) iterHeap(r *ssa.Range) string {
	h := "it." + funcKey(e.fn) + "." + r.Name()
	switch u := r.X.Type().Underlying().(type) {
	case *types.Map:
		e.w.heapSorts[h] = "(Array " + e.w.sortOf(u.Key()) + " Bool)"
	default:
		e.w.heapSorts[h] = "Int"
	}
	return h
}

func (e *Enc) next(x *ssa.Next) {
	w := e.w
	rng := x.Iter.(*ssa.Range)
	h := e.iterHeap(rng)
	ok := e.tupleVal(x, 0)
	if x.IsString {
		s := e.val(rng.X)
		pos := e.H(h)
		e.assume(fmt.Sprintf("(= %s (< %s (slen %s)))", ok, pos, s))
		e.assume(fmt.Sprintf("(=> %s (= %s %s))", ok, e.tupleVal(x, 1), pos))
		np := e.bump(h)
		e.assume(fmt.Sprintf("(=> %s (and (> %s %s) (<= %s (slen %s))))", ok, np, pos, np, s))
		return
	}
	mt := rng.X.Type().Underlying().(*types.Map)
	m := e.val(rng.X)
	k, v := e.tupleVal(x, 1), e.tupleVal(x, 2)
	vis := e.H(h)
	dom := fmt.Sprintf("(select %s %s)", e.H(w.heapMapDom(mt)), m)
	ks := w.sortOf(mt.Key())
	e.assume(fmt.Sprintf("(=> %s (and (not (= %s nil)) (select %s %s) (not (select %s %s))))", ok, m, dom, k, vis, k))
	e.assume(fmt.Sprintf("(=> (and (not %s) (not (= %s nil))) (forall ((k %s)) (=> (select %s k) (select %s k))))", ok, m, ks, dom, vis))
	e.assume(fmt.Sprintf("(=> %s (= %s (select (select %s %s) %s)))", ok, v, e.H(w.heapMapVal(mt)), m, k))
	e.wfValue(k, mt.Key(), ok)
	e.wfValue(v, mt.Elem(), ok)
	nv := e.bump(h)
	e.assume(fmt.Sprintf("(= %s (ite %s (store %s %s true) %s))", nv, ok, vis, k, vis))
}

func (e *Enc) binop(x *ssa.BinOp) {
	a, b := e.val(x.X), e.val(x.Y)
	isStr := false
	if bt, ok := x.X.Type().Underlying().(*types.Basic); ok && bt.Info()&types.IsString != 0 {
		isStr = true
	}
	_, isSlice := x.X.Type().Underlying().(*types.Slice)
	if isSlice { // comparison with nil
		a, b = "(s_arr "+a+")", "nil"
		if c, ok := x.X.(*ssa.Const); ok && c.Value == nil {
			a = "(s_arr " + e.val(x.Y) + ")"
		}
	}
	var t string
	switch x.Op {
	case token.ADD:
		if isStr {
			t = fmt.Sprintf("(sconcat %s %s)", a, b)
		} else {
			t = fmt.Sprintf("(+ %s %s)", a, b)
		}
	case token.SUB:
		t = fmt.Sprintf("(- %s %s)", a, b)
	case token.MUL:
		t = fmt.Sprintf("(* %s %s)", a, b)
	case token.QUO:
		e.safety("div-by-zero", fmt.Sprintf("(not (= %s 0))", b))
		t = fmt.Sprintf("(godiv %s %s)", a, b)
	case token.REM:
		e.safety("div-by-zero", fmt.Sprintf("(not (= %s 0))", b))
		t = fmt.Sprintf("(gorem %s %s)", a, b)
	case token.EQL:
		t = fmt.Sprintf("(= %s %s)", a, b)
	case token.NEQ:
		t = fmt.Sprintf("(not (= %s %s))", a, b)
	case token.LSS, token.LEQ, token.GTR, token.GEQ:
		op := map[token.Token]string{token.LSS: "<", token.LEQ: "<=", token.GTR: ">", token.GEQ: ">="}[x.Op]
		if isStr {
			t = fmt.Sprintf("(scmp%s %s %s)", map[string]string{"<": "lt", "<=": "le", ">": "gt", ">=": "ge"}[op], a, b)
		} else {
			t = fmt.Sprintf("(%s %s %s)", op, a, b)
		}
	case token.AND, token.OR, token.XOR, token.SHL, token.SHR, token.AND_NOT:
		if e.w.sortOf(x.Type()) == "Bool" {
			op := map[token.Token]string{token.AND: "and", token.OR: "or", token.XOR: "xor"}[x.Op]
			t = fmt.Sprintf("(%s %s %s)", op, a, b)
		} else {
			f := e.declareFun(q("bit."+x.Op.String()), []string{"Int", "Int"}, "Int")
			t = fmt.Sprintf("(%s %s %s)", f, a, b)
		}
	default:
		e.errorf("unsupported binop %s", x.Op)
		return
	}
	e.defVal(x, t)
}

func (e *Enc) convert(x *ssa.Convert) {
	w := e.w
	from, to := x.X.Type().Underlying(), x.Type().Underlying()
	fs, ts := w.sortOf(from), w.sortOf(to)
	switch {
	case fs == "Int" && ts == "Int":
		e.defVal(x, e.val(x.X))
	case fs == "Str" && ts == "Slice":
		st := to.(*types.Slice)
		r := e.newRef(q("arr." + x.Name()))
		h := w.heapArr(st.Elem())
		na := e.bump(h)
		_ = na
		prev := e.heapAt(h, e.cur[h]-1)
		e.assume(fmt.Sprintf("(forall ((r Ref)) (=> (not (= r %s)) (= (select %s r) (select %s r))))", r, e.H(h), prev))
		e.defVal(x, fmt.Sprintf("(mk_slice %s 0 (slen %s))", r, e.val(x.X)))
		f := e.declareFun(q("str_of."+w.tyid(st.Elem())), []string{"(Array Int " + w.sortOf(st.Elem()) + ")", "Int", "Int"}, "Str")
		e.assume(fmt.Sprintf("(= (%s (select %s %s) 0 (slen %s)) %s)", f, e.H(h), r, e.val(x.X), e.val(x.X)))
	case fs == "Slice" && ts == "Str":
		st := from.(*types.Slice)
		h := w.heapArr(st.Elem())
		f := e.declareFun(q("str_of."+w.tyid(st.Elem())), []string{"(Array Int " + w.sortOf(st.Elem()) + ")", "Int", "Int"}, "Str")
		s := e.val(x.X)
		e.defVal(x, fmt.Sprintf("(%s (select %s (s_arr %s)) (s_off %s) (s_len %s))", f, e.H(h), s, s, s))
	case fs == "Int" && ts == "Str":
		f := e.declareFun(q("str_of_rune"), []string{"Int"}, "Str")
		e.defVal(x, fmt.Sprintf("(%s %s)", f, e.val(x.X)))
	case fs == ts:
		e.defVal(x, e.val(x.X))
	case fs == "Int" && ts == "Real":
		e.defVal(x, fmt.Sprintf("(to_real %s)", e.val(x.X)))
	case fs == "Real" && ts == "Int":
		e.defVal(x, fmt.Sprintf("(to_int %s)", e.val(x.X)))
	default:
		e.errorf("unsupported conversion %s -> %s", x.X.Type(), x.Type())
	}
}

func (e *Enc) slice(x *ssa.Slice) {
	w := e.w
	lo := "0"
	if x.Low != nil {
		lo = e.val(x.Low)
	}
	switch u := x.X.Type().Underlying().(type) {
	case *types.Basic: // string
		s := e.val(x.X)
		hi := fmt.Sprintf("(slen %s)", s)
		if x.High != nil {
			hi = e.val(x.High)
		}
		e.safety("slice-bounds", fmt.Sprintf("(and (<= 0 %s) (<= %s %s) (<= %s (slen %s)))", lo, lo, hi, hi, s))
		if x.Low == nil && x.High == nil {
			e.defVal(x, s)
		} else {
			e.defVal(x, fmt.Sprintf("(ssub %s %s %s)", s, lo, hi))
		}
	case *types.Slice:
		s := e.val(x.X)
		hi := fmt.Sprintf("(s_len %s)", s)
		if x.High != nil {
			hi = e.val(x.High)
		}
		if x.Low != nil || x.High != nil {
			// cap is not modelled: require hi <= len (stronger than Go's hi <= cap)
			e.safety("slice-bounds", fmt.Sprintf("(and (<= 0 %s) (<= %s %s) (<= %s (s_len %s)))", lo, lo, hi, hi, s))
		}
		e.defVal(x, fmt.Sprintf("(mk_slice (s_arr %s) (+ (s_off %s) %s) (- %s %s))", s, s, lo, hi, lo))
	case *types.Pointer:
		at := u.Elem().Underlying().(*types.Array)
		hi := fmt.Sprint(at.Len())
		if x.High != nil {
			hi = e.val(x.High)
		}
		if x.Low != nil || x.High != nil {
			e.safety("slice-bounds", fmt.Sprintf("(and (<= 0 %s) (<= %s %s) (<= %s %d))", lo, lo, hi, hi, at.Len()))
		}
		e.defVal(x, fmt.Sprintf("(mk_slice %s %s (- %s %s))", e.val(x.X), lo, hi, lo))
		_ = w
	default:
		e.errorf("unsupported slice of %s", x.X.Type())
	}
}

// sorted heap names helper
func sortedHeapNames(m map[string]bool) []string {
	var out []string
	for k := range m {
		out = append(out, k)
	}
	sort.Strings(out)
	return out
}
