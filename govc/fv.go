package main

import (
	"fmt"
	"go/ast"
	"go/token"
	"go/types"
	"sort"
	"strings"

	"golang.org/x/tools/go/ssa"
)

type FuncVerifier struct {
	w    *World
	fn   *ssa.Function
	spec *FuncSpec
	pass Pass

	headers    []*ssa.BasicBlock
	headerOrd  map[*ssa.BasicBlock]int
	loopBody   map[*ssa.BasicBlock]map[*ssa.BasicBlock]bool
	loopSrc    map[*ssa.BasicBlock]string // source text of the loop statement's first line
	siteLabels map[ssa.Instruction]string
	fnWrites   []string
	cover      bool // also emit cover obligations (goal false at every return / loop body entry)

	cutAt map[ssa.Instruction][]*CutSpec // lemmas to prove just before an instruction

	obls  []*Obligation
	errs  []string
	warns []string
}

func NewFuncVerifier(w *World, fn *ssa.Function, pass Pass) *FuncVerifier {
	fv := &FuncVerifier{w: w, fn: fn, pass: pass, spec: w.specs.Funcs[funcKey(fn)], headerOrd: map[*ssa.BasicBlock]int{},
		loopBody: map[*ssa.BasicBlock]map[*ssa.BasicBlock]bool{}, loopSrc: map[*ssa.BasicBlock]string{}, siteLabels: map[ssa.Instruction]string{}}
	fv.findLoops()
	fv.labelSites()
	fv.findCuts()
	fv.fnWrites = sortedHeapNames(w.writes[fn])
	return fv
}

func (fv *FuncVerifier) findLoops() {
	fn := fv.fn
	for _, b := range fn.Blocks {
		for _, s := range b.Succs {
			if s.Dominates(b) { // back edge b -> s
				body := fv.loopBody[s]
				if body == nil {
					body = map[*ssa.BasicBlock]bool{s: true}
					fv.loopBody[s] = body
				}
				// natural loop: blocks reaching b without passing s
				var stack []*ssa.BasicBlock
				if !body[b] {
					body[b] = true
					stack = append(stack, b)
				}
				for len(stack) > 0 {
					x := stack[len(stack)-1]
					stack = stack[:len(stack)-1]
					for _, p := range x.Preds {
						if !body[p] {
							body[p] = true
							stack = append(stack, p)
						}
					}
				}
			}
		}
	}
	for h := range fv.loopBody {
		fv.headers = append(fv.headers, h)
	}
	sort.Slice(fv.headers, func(i, j int) bool { return fv.headers[i].Index < fv.headers[j].Index })
	for i, h := range fv.headers {
		fv.headerOrd[h] = i
	}
	// source lines of loop statements, in source order
	if syn := fn.Syntax(); syn != nil {
		var loops []ast.Node
		ast.Inspect(syn, func(n ast.Node) bool {
			switch n.(type) {
			case *ast.ForStmt, *ast.RangeStmt:
				loops = append(loops, n)
			case *ast.FuncLit:
				if n != syn {
					return false
				}
			}
			return true
		})
		if len(loops) == len(fv.headers) {
			for i, l := range loops {
				p := fv.w.fset.Position(l.Pos())
				fv.loopSrc[fv.headers[i]] = fmt.Sprintf("%s:%d", shortFile(p.Filename), p.Line)
			}
		}
	}
}

// findCuts resolves `before "<statement text>"` anchors to the first SSA
// instruction generated for that statement.
func (fv *FuncVerifier) findCuts() {
	fv.cutAt = map[ssa.Instruction][]*CutSpec{}
	if fv.spec == nil || len(fv.spec.Cuts) == 0 {
		return
	}
	syn := fv.fn.Syntax()
	if syn == nil {
		return
	}
	for _, c := range fv.spec.Cuts {
		var matches []ast.Stmt
		ast.Inspect(syn, func(n ast.Node) bool {
			st, ok := n.(ast.Stmt)
			if !ok {
				return true
			}
			if _, isBlock := st.(*ast.BlockStmt); isBlock {
				return true
			}
			p := fv.w.fset.Position(st.Pos())
			src := readFileCached(p.Filename)
			e := fv.w.fset.Position(st.End())
			if p.Offset < len(src) && e.Offset <= len(src) {
				text := normSpace(src[p.Offset:e.Offset])
				if strings.HasPrefix(text, normSpace(c.Text)) {
					matches = append(matches, st)
				}
			}
			return true
		})
		if c.Nth == 0 && len(matches) != 1 || c.Nth > len(matches) {
			fv.errs = append(fv.errs, fmt.Sprintf("STALE: before %q matches %d statements in %s", c.Text, len(matches), funcKey(fv.fn)))
			continue
		}
		st := matches[0]
		if c.Nth > 0 {
			sort.Slice(matches, func(i, j int) bool { return matches[i].Pos() < matches[j].Pos() })
			st = matches[c.Nth-1]
		}
		var best ssa.Instruction
		for _, b := range fv.fn.Blocks {
			for _, in := range b.Instrs {
				if _, isDbg := in.(*ssa.DebugRef); isDbg {
					continue
				}
				if _, isPhi := in.(*ssa.Phi); isPhi {
					continue
				}
				if in.Pos() >= st.Pos() && in.Pos() < st.End() {
					if best == nil || in.Pos() < best.Pos() {
						best = in
					}
				}
			}
		}
		if best == nil {
			fv.errs = append(fv.errs, fmt.Sprintf("STALE: before %q: no instruction found", c.Text))
			continue
		}
		fv.cutAt[best] = append(fv.cutAt[best], c)
	}
}

func (fv *FuncVerifier) labelSites() {
	counts := map[string]int{}
	for _, b := range fv.fn.Blocks {
		for _, in := range b.Instrs {
			var base string
			switch x := in.(type) {
			case *ssa.Call:
				ci := fv.w.resolveCallee(x.Common())
				base = "call(" + ci.key + ")"
			case *ssa.DebugRef, *ssa.Phi, *ssa.Jump:
				continue
			default:
				base = strings.TrimPrefix(fmt.Sprintf("%T", in), "*ssa.")
			}
			fv.siteLabels[in] = fmt.Sprintf("%s#%d", base, counts[base])
			counts[base]++
		}
	}
}

// modifies --------------------------------------------------------------

var implicitNothingClause = []*ModClause{{Nothing: true, Src: "nothing (implicit: C13 run)"}}

func (fv *FuncVerifier) activeMods() []*ModClause {
	if fv.w.implicitNothing && (fv.spec == nil || len(fv.spec.Modifies) == 0) {
		return implicitNothingClause
	}
	if fv.spec == nil {
		return nil
	}
	var out []*ModClause
	// modifies clauses are always in force (frame assumptions are available to
	// every property); the obligations they generate belong to C13 and C17
	out = append(out, fv.spec.Modifies...)
	return out
}

func (fv *FuncVerifier) hasModSpec() bool {
	for _, m := range fv.activeMods() {
		if m.Nothing || m.Pred != nil || len(m.Objs) > 0 {
			return true
		}
	}
	return false
}

// modifiesNothing: the contract says `modifies nothing` and nothing else about the heap
func (fv *FuncVerifier) modifiesNothing() bool {
	nothing := false
	for _, m := range fv.activeMods() {
		if m.Pred != nil || len(m.Objs) > 0 {
			return false
		}
		if m.Nothing {
			nothing = true
		}
	}
	return nothing
}

func (fv *FuncVerifier) modTags() []string { return []string{"C13", "C17", "C15"} }

func (fv *FuncVerifier) ghostAllowed(h string) bool {
	for _, m := range fv.activeMods() {
		for _, g := range m.Ghosts {
			if "gh."+g == h {
				return true
			}
		}
	}
	if fv.spec != nil {
		for _, sc := range fv.spec.Sets {
			if "gh."+sc.Ghost == h {
				return true
			}
		}
	}
	return false
}

// modPred: the function's own modifies predicate at object r (restricted to
// clauses that can concern heap `heap`; "" = all), evaluated in the entry state.
func (fv *FuncVerifier) modPred(e *Enc, r string, heap string) string {
	env := fv.paramEnv(e)
	env.curVer = map[string]int{}
	env.oldVer = map[string]int{}
	return modDisjunction(e, env, fv.activeMods(), r, heap, "modifies of "+funcKey(fv.fn))
}

// heapsOfType: the heaps in which an object referenced by a value of type t lives
func (w *World) heapsOfType(t types.Type) []string {
	switch u := t.Underlying().(type) {
	case *types.Slice:
		return []string{w.heapArr(u.Elem())}
	case *types.Map:
		return []string{w.heapMapDom(u), w.heapMapVal(u)}
	case *types.Pointer:
		switch pu := u.Elem().Underlying().(type) {
		case *types.Struct:
			var hs []string
			for i := 0; i < pu.NumFields(); i++ {
				hs = append(hs, w.heapField(u.Elem(), i))
			}
			return hs
		case *types.Array:
			return []string{w.heapArr(pu.Elem())}
		default:
			return []string{w.heapCell(u.Elem())}
		}
	}
	return nil
}

func modDisjunction(e *Enc, env *Env, mods []*ModClause, r string, heap string, what string) string {
	var ds []string
	for _, m := range mods {
		if m.Pred != nil {
			c := env.child()
			c.vars[m.Var] = EV{r, tRef}
			t, _, err := c.elab(m.Pred)
			if err != nil {
				e.errorf("%s: %v", what, err)
				continue
			}
			ds = append(ds, t)
			continue
		}
		for _, o := range m.Objs {
			t, st, err := env.elab(o)
			if err != nil {
				e.errorf("%s: %v", what, err)
				continue
			}
			if e.w.stypeSort(st) == "Slice" {
				t = "(s_arr " + t + ")"
			}
			if heap != "" && st.T != nil {
				ok := false
				for _, h := range e.w.heapsOfType(st.T) {
					if h == heap {
						ok = true
					}
				}
				if !ok {
					continue // by typing, this object does not live in that heap
				}
			}
			d := fmt.Sprintf("(= %s %s)", r, t)
			if m.When != nil {
				wt, _, err := env.elab(m.When)
				if err != nil {
					e.errorf("%s: %v", what, err)
					continue
				}
				d = fmt.Sprintf("(and %s %s)", d, wt)
			}
			ds = append(ds, d)
		}
	}
	switch len(ds) {
	case 0:
		return "false"
	case 1:
		return ds[0]
	}
	return "(or " + strings.Join(ds, " ") + ")"
}

// environments ------------------------------------------------------------

func (fv *FuncVerifier) paramEnv(e *Enc) *Env {
	env := &Env{e: e, vars: map[string]EV{}}
	for _, p := range fv.fn.Params {
		env.vars[p.Name()] = EV{e.val(p), SType{T: p.Type()}}
	}
	for _, p := range fv.fn.FreeVars {
		env.vars[p.Name()] = EV{e.val(p), SType{T: p.Type()}}
	}
	return env
}

// siteEnv: parameters plus local variables as visible just before instruction
// idx of block b (resolved through DebugRefs / phi comments along the dominator chain).
func (fv *FuncVerifier) siteEnv(e *Enc, b *ssa.BasicBlock, idx int) *Env {
	env := fv.paramEnv(e)
	env.idxOf = func(n int) (string, error) {
		if n < 0 || n >= len(fv.headers) {
			return "", fmt.Errorf("no loop %d", n)
		}
		for _, in := range fv.headers[n].Instrs {
			if p, ok := in.(*ssa.Phi); ok && p.Comment == "rangeindex" {
				return e.val(p), nil
			}
		}
		return "", fmt.Errorf("loop %d has no range index", n)
	}
	env.oldVer = map[string]int{}
	env.lookup = func(name string) (EV, bool) {
		blk, i := b, idx
		for blk != nil {
			for j := i - 1; j >= 0; j-- {
				switch x := blk.Instrs[j].(type) {
				case *ssa.DebugRef:
					id, ok := x.Expr.(*ast.Ident)
					if !ok || id.Name != name {
						continue
					}
					if cl, ok := fv.w.litOfLHS[id.Pos()]; ok && !x.IsAddr {
						if v := fv.litValue(cl); v != nil {
							return EV{e.val(v), SType{T: v.Type()}}, true
						}
					}
					if x.IsAddr {
						p := e.ptrOf(x.X)
						return EV{e.load(p), SType{T: p.typ}}, true
					}
					if _, isT := x.X.Type().(*types.Tuple); isT {
						continue
					}
					return EV{e.val(x.X), SType{T: x.X.Type()}}, true
				case *ssa.Phi:
					if x.Comment == name {
						return EV{e.val(x), SType{T: x.Type()}}, true
					}
				case *ssa.Alloc:
					if x.Comment == name {
						p := e.ptrOf(x)
						return EV{e.load(p), SType{T: p.typ}}, true
					}
				}
			}
			blk = blk.Idom()
			if blk != nil {
				i = len(blk.Instrs)
			}
		}
		return EV{}, false
	}
	return env
}

// litValue: the SSA value x/tools bound to composite literal cl in this function
func (fv *FuncVerifier) litValue(cl ast.Expr) ssa.Value {
	for _, blk := range fv.fn.Blocks {
		for _, in := range blk.Instrs {
			if d, ok := in.(*ssa.DebugRef); ok && !d.IsAddr && d.Expr == cl {
				return d.X
			}
		}
	}
	return nil
}

// invariant environment at header h; phiSubst maps header phis to incoming values (for checking on an edge)
func (fv *FuncVerifier) invEnv(e *Enc, h *ssa.BasicBlock, phiSubst map[*ssa.Phi]string) *Env {
	nphi := 0
	for _, in := range h.Instrs {
		if _, ok := in.(*ssa.Phi); ok {
			nphi++
		} else {
			break
		}
	}
	base := fv.siteEnv(e, h, nphi)
	inner := base.lookup
	base.lookup = func(name string) (EV, bool) {
		for _, in := range h.Instrs[:nphi] {
			p := in.(*ssa.Phi)
			if p.Comment == name {
				if phiSubst != nil {
					if t, ok := phiSubst[p]; ok {
						return EV{t, SType{T: p.Type()}}, true
					}
				}
				return EV{e.val(p), SType{T: p.Type()}}, true
			}
		}
		return inner(name)
	}
	base.preVer = e.loopPre[h]
	if base.preVer == nil && phiSubst != nil {
		// invariant checked on an entry edge: "loop entry" is the current state
		snap := map[string]int{}
		for k, v := range e.cur {
			snap[k] = v
		}
		base.preVer = snap
	}
	// $visitedN: iterator of loop N
	base.visitedOf = func(n int, k string) (string, error) {
		if n < 0 || n >= len(fv.headers) {
			return "", fmt.Errorf("no loop %d", n)
		}
		for _, in := range fv.headers[n].Instrs {
			if nx, ok := in.(*ssa.Next); ok && !nx.IsString {
				return fmt.Sprintf("(select %s %s)", e.H(e.iterHeap(nx.Iter.(*ssa.Range))), k), nil
			}
		}
		return "", fmt.Errorf("loop %d is not a map range", n)
	}
	// $visited: iterator of the Next in this header
	for _, in := range h.Instrs {
		if nx, ok := in.(*ssa.Next); ok && !nx.IsString {
			rng := nx.Iter.(*ssa.Range)
			base.visited = func(k string) (string, error) {
				return fmt.Sprintf("(select %s %s)", e.H(e.iterHeap(rng)), k), nil
			}
			break
		}
	}
	return base
}

// -------------------------------------------------------------------------
// segments

func (fv *FuncVerifier) newEnc(name string) *Enc {
	e := &Enc{w: fv.w, fn: fv.fn, spec: fv.spec, pass: fv.pass, fv: fv, decls: map[string]string{}, funDecls: map[string]string{},
		ver: map[string]int{}, cur: map[string]int{}, segName: name, dec0: map[*ssa.BasicBlock]string{}, loopPre: map[*ssa.BasicBlock]map[string]int{}, letLevel: map[string]int{}, opaque: map[string]string{}, letDef: map[string]string{}, refVals: map[string][]string{}, refSeen: map[string]bool{}, refBlk: map[string]*ssa.BasicBlock{}, ancCache: map[*ssa.BasicBlock]map[*ssa.BasicBlock]bool{}, reach: map[*ssa.BasicBlock]string{}, exitHeap: map[*ssa.BasicBlock]map[string]int{},
		inSeg: map[*ssa.BasicBlock]bool{}}
	return e
}

func (fv *FuncVerifier) isHeader(b *ssa.BasicBlock) bool { _, ok := fv.loopBody[b]; return ok }

func (fv *FuncVerifier) Run() {
	fn := fv.fn
	if fn.Recover != nil {
		fv.errs = append(fv.errs, "function uses defer/recover: outside the subset")
	}
	// stale-key detection
	if fv.spec != nil {
		for ord, ls := range fv.spec.Loops {
			if ord >= len(fv.headers) {
				fv.errs = append(fv.errs, fmt.Sprintf("STALE: %s names loop %d but function has %d loops", fv.spec.Key, ord, len(fv.headers)))
			} else if ls.Header != "" {
				src := fv.loopText(fv.headers[ord])
				if src != "" && !strings.Contains(normSpace(src), normSpace(ls.Header)) {
					// the loop was edited: the contract is still applied by ordinal (an invariant that
					// no longer fits fails its obligations or its elaboration, which is reported)
					fv.warns = append(fv.warns, fmt.Sprintf("loop %d of %s now reads %q, contract was written for %q", ord, fv.spec.Key, src, ls.Header))
				}
			}
		}
	}
	e := fv.newEnc("fn")
	fv.encodeFunction(e)
	fv.obls = append(fv.obls, e.obls...)
	fv.errs = append(fv.errs, e.errs...)
}

func normSpace(s string) string { return strings.Join(strings.Fields(s), " ") }

func (fv *FuncVerifier) loopText(h *ssa.BasicBlock) string {
	loc, ok := fv.loopSrc[h]
	if !ok {
		return ""
	}
	return fv.w.sourceLine(loc)
}

func (fv *FuncVerifier) loopSpec(h *ssa.BasicBlock) *LoopSpec {
	if fv.spec == nil {
		return nil
	}
	return fv.spec.Loops[fv.headerOrd[h]]
}

// autoInvariants: lower bounds of monotone integer counters
func (fv *FuncVerifier) autoInvs(h *ssa.BasicBlock) []struct {
	phi *ssa.Phi
	lo  int64
} {
	var out []struct {
		phi *ssa.Phi
		lo  int64
	}
	for _, in := range h.Instrs {
		p, ok := in.(*ssa.Phi)
		if !ok {
			break
		}
		if bt, ok := p.Type().Underlying().(*types.Basic); !ok || bt.Info()&types.IsInteger == 0 {
			continue
		}
		var lo *int64
		good := true
		for i, ev := range p.Edges {
			pred := h.Preds[i]
			if fv.loopBody[h][pred] { // back edge: must be phi + positive const, or phi itself
				if ev == p {
					continue
				}
				bo, ok := ev.(*ssa.BinOp)
				if !ok || bo.Op != token.ADD {
					good = false
					break
				}
				c, ok := bo.Y.(*ssa.Const)
				if !ok || bo.X != ssa.Value(p) || c.Int64() < 0 {
					good = false
					break
				}
			} else {
				c, ok := ev.(*ssa.Const)
				if !ok {
					good = false
					break
				}
				v := c.Int64()
				if lo == nil || v < *lo {
					lo = &v
				}
			}
		}
		if good && lo != nil {
			out = append(out, struct {
				phi *ssa.Phi
				lo  int64
			}{p, *lo})
		}
	}
	return out
}

func intTerm(v int64) string {
	if v < 0 {
		return fmt.Sprintf("(- %d)", -v)
	}
	return fmt.Sprint(v)
}

// checkInvariants emits the obligations for entering header h along the edge from block `from`.
func (fv *FuncVerifier) checkInvariants(e *Enc, from, h *ssa.BasicBlock, edgeCond string) {
	// phi substitution for this edge
	pi := -1
	for i, p := range h.Preds {
		if p == from {
			pi = i
		}
	}
	subst := map[*ssa.Phi]string{}
	for _, in := range h.Instrs {
		p, ok := in.(*ssa.Phi)
		if !ok {
			break
		}
		subst[p] = e.val(p.Edges[pi])
	}
	edgeName := fmt.Sprintf("edge(%s->loop%d)", blockLabel(from), fv.headerOrd[h])
	saveReach := e.reach[from]
	reachName := e.declare(q(e.freshName("redge")), "Bool")
	e.assume(fmt.Sprintf("(= %s (and %s %s))", reachName, saveReach, edgeCond))
	saveBlock, saveInstr := e.curBlock, e.curInstr
	e.curInstr = from.Instrs[len(from.Instrs)-1]
	for k := len(from.Instrs) - 1; k >= 0; k-- {
		if from.Instrs[k].Pos() != token.NoPos {
			e.curInstr = from.Instrs[k]
			break
		}
	}
	e.reach[from] = reachName
	defer func() { e.reach[from] = saveReach; e.curBlock, e.curInstr = saveBlock, saveInstr }()
	e.curBlock = from

	for _, ai := range fv.autoInvs(h) {
		e.oblige("inv", fmt.Sprintf("inv(auto:%s>=%d)/loop%d@%s", ai.phi.Comment, ai.lo, fv.headerOrd[h], edgeName),
			fmt.Sprintf("(>= %s %s)", subst[ai.phi], intTerm(ai.lo)), nil, "auto")
	}
	// auto invariant of map iterators: visited ⊆ dom
	for _, in := range h.Instrs {
		if nx, ok := in.(*ssa.Next); ok && !nx.IsString {
			rng := nx.Iter.(*ssa.Range)
			mt := rng.X.Type().Underlying().(*types.Map)
			e.oblige("inv", fmt.Sprintf("inv(auto:visited-in-dom)/loop%d@%s", fv.headerOrd[h], edgeName),
				fmt.Sprintf("(forall ((k %s)) (=> (select %s k) (select (select %s %s) k)))", fv.w.sortOf(mt.Key()), e.H(e.iterHeap(rng)), e.H(fv.w.heapMapDom(mt)), e.val(rng.X)), nil, "auto")
		}
	}
	ls := fv.loopSpec(h)
	if ls == nil {
		return
	}
	env := fv.invEnv(e, h, subst)
	for k, cl := range ls.Invs {
		if !fv.pass.Active(cl.Tags) {
			continue
		}
		t, _, err := env.elab(cl.E)
		if err != nil {
			e.errorf("invariant %s: %v", cl.Loc(), err)
			continue
		}
		e.oblige("inv", fmt.Sprintf("inv#%d/loop%d@%s", k, fv.headerOrd[h], edgeName), t, cl.Tags, cl.Src)
	}
	// variant
	if d0, ok := e.dec0[h]; ok && ls.Decr != nil && fv.pass.Active(ls.Decr.Tags) && fv.loopBody[h][from] {
		t, _, err := env.elab(ls.Decr.E)
		if err != nil {
			e.errorf("decreases %s: %v", ls.Decr.Loc(), err)
		} else {
			e.oblige("decreases", fmt.Sprintf("decreases/loop%d@%s", fv.headerOrd[h], edgeName),
				fmt.Sprintf("(and (>= %s 0) (< %s %s))", d0, t, d0), ls.Decr.Tags, ls.Decr.Src)
		}
	}
}

func blockLabel(b *ssa.BasicBlock) string { return fmt.Sprintf("b%d", b.Index) }

// loopWrites: heaps that may be written inside the loop with header h
func (fv *FuncVerifier) loopWrites(e *Enc, h *ssa.BasicBlock) []string {
	w := fv.w
	set := map[string]bool{}
	sub := &FuncVerifier{w: w, fn: fv.fn, siteLabels: map[ssa.Instruction]string{}}
	de := sub.newEnc("writes")
	for b := range fv.loopBody[h] {
		for _, in := range b.Instrs {
			for _, hn := range instrWrites(w, de, in) {
				set[hn] = true
			}
			for _, c := range fv.cutAt[in] {
				for _, sc := range c.Sets {
					if !fv.pass.Active(sc.Tags) {
						continue
					}
					if hn, err := w.heapGhost(sc.Ghost); err == nil {
						set[hn] = true
					}
				}
			}
		}
	}
	return sortedHeapNames(set)
}

func (fv *FuncVerifier) isBackEdge(from, to *ssa.BasicBlock) bool {
	return fv.isHeader(to) && fv.loopBody[to][from]
}

func (fv *FuncVerifier) encodeFunction(e *Enc) {
	w := fv.w
	fn := fv.fn
	// reverse postorder ignoring back edges
	var order []*ssa.BasicBlock
	seen := map[*ssa.BasicBlock]bool{}
	var dfs func(b *ssa.BasicBlock)
	dfs = func(b *ssa.BasicBlock) {
		seen[b] = true
		for _, s := range b.Succs {
			if fv.isBackEdge(b, s) {
				continue
			}
			if !seen[s] {
				dfs(s)
			}
		}
		order = append(order, b)
	}
	dfs(fn.Blocks[0])
	for i, j := 0, len(order)-1; i < j; i, j = i+1, j-1 {
		order[i], order[j] = order[j], order[i]
	}
	for _, b := range order {
		e.inSeg[b] = true
	}

	// global axioms (T9 and property vocabulary)
	for _, ax := range w.specs.Axioms {
		if !fv.pass.Active(ax.Tags) {
			continue
		}
		aenv := &Env{e: e, vars: map[string]EV{}, curVer: map[string]int{}, oldVer: map[string]int{}}
		t, _, err := aenv.elab(ax.E)
		if err != nil {
			e.errorf("axiom %s: %v", ax.Name, err)
			continue
		}
		e.assume(t)
	}
	// entry state
	e.declare(q("alloc#0"), w.heapSorts[heapAlloc])
	penv := fv.paramEnv(e)
	for i, p := range fn.Params {
		e.wfValue(e.val(p), p.Type(), "")
		if i == 0 && fn.Signature.Recv() != nil {
			if _, isPtr := p.Type().Underlying().(*types.Pointer); isPtr {
				// implicit contract of every repo method: the receiver is non-nil
				// (checked at each internal call site, see call.go)
				e.assume(fmt.Sprintf("(not (= %s nil))", e.val(p)))
			}
		}
	}
	for _, p := range fn.FreeVars {
		e.wfValue(e.val(p), p.Type(), "")
	}
	if fv.spec != nil {
		for _, cl := range fv.spec.Requires {
			if !fv.pass.Active(cl.Tags) {
				continue
			}
			t, _, err := penv.elab(cl.E)
			if err != nil {
				e.errorf("requires %s: %v", cl.Loc(), err)
				continue
			}
			e.assume(t)
		}
	}

	for _, b := range order {
		e.curBlock = b
		e.curInstr = nil
		if b == fn.Blocks[0] {
			e.reach[b] = "true"
		} else {
			type inEdge struct {
				pred *ssa.BasicBlock
				name string
			}
			var ins []inEdge
			for _, p := range b.Preds {
				if !e.inSeg[p] || fv.isBackEdge(p, b) {
					continue
				}
				if e.exitHeap[p] == nil {
					e.errorf("internal: predecessor b%d of b%d not yet encoded", p.Index, b.Index)
					continue
				}
				dup := false
				for _, x := range ins {
					if x.pred == p {
						dup = true
					}
				}
				if dup {
					continue
				}
				en := e.declare(q(fmt.Sprintf("edge.%s.%s", blockLabel(p), blockLabel(b))), "Bool")
				e.assume(fmt.Sprintf("(= %s (and %s %s))", en, e.reach[p], fv.edgeCond(e, p, b)))
				ins = append(ins, inEdge{p, en})
			}
			rn := e.declare(q("reach."+blockLabel(b)), "Bool")
			var ds []string
			for _, ie := range ins {
				ds = append(ds, ie.name)
			}
			switch len(ds) {
			case 0:
				e.assume(fmt.Sprintf("(= %s false)", rn))
			case 1:
				e.assume(fmt.Sprintf("(= %s %s)", rn, ds[0]))
			default:
				e.assume(fmt.Sprintf("(= %s (or %s))", rn, strings.Join(ds, " ")))
			}
			e.reach[b] = rn
			if len(ins) > 0 {
				first := e.exitHeap[ins[0].pred]
				e.cur = map[string]int{}
				for k, v := range first {
					e.cur[k] = v
				}
				allHeaps := map[string]bool{}
				for _, ie := range ins {
					for k := range e.exitHeap[ie.pred] {
						allHeaps[k] = true
					}
				}
				for _, h := range sortedHeapNames(allHeaps) {
					same := true
					for _, ie := range ins[1:] {
						if e.exitHeap[ie.pred][h] != first[h] {
							same = false
						}
					}
					if same {
						continue
					}
					// one definitional equality with an ite chain (no conditional
					// array equalities: those drag in extensionality reasoning)
					term := e.heapAt(h, e.exitHeap[ins[len(ins)-1].pred][h])
					for k := len(ins) - 2; k >= 0; k-- {
						term = fmt.Sprintf("(ite %s %s %s)", ins[k].name, e.heapAt(h, e.exitHeap[ins[k].pred][h]), term)
					}
					nv := e.bump(h)
					e.assume(fmt.Sprintf("(= %s %s)", nv, term))
				}
				if !fv.isHeader(b) {
					for _, in := range b.Instrs {
						p, ok := in.(*ssa.Phi)
						if !ok {
							break
						}
						if _, isT := p.Type().(*types.Tuple); isT {
							continue
						}
						incoming := func(pred *ssa.BasicBlock) string {
							for pi, pp := range b.Preds {
								if pp == pred {
									return e.val(p.Edges[pi])
								}
							}
							return e.val(p)
						}
						term := incoming(ins[len(ins)-1].pred)
						for k := len(ins) - 2; k >= 0; k-- {
							term = fmt.Sprintf("(ite %s %s %s)", ins[k].name, incoming(ins[k].pred), term)
						}
						e.assume(fmt.Sprintf("(= %s %s)", e.val(p), term))
					}
				}
			}
		}
		if fv.isHeader(b) {
			fv.enterLoop(e, b)
		}
		fv.afterLoops(e, b)
		for i, in := range b.Instrs {
			e.curInstr = in
			e.curIdx = i
			for ci, c := range fv.cutAt[in] {
				env := fv.siteEnv(e, b, i)
				for k, cl := range c.Lemmas {
					if !fv.pass.Active(cl.Tags) {
						continue
					}
					t, _, err := env.elab(cl.E)
					if err != nil {
						e.errorf("lemma %s: %v", cl.Loc(), err)
						continue
					}
					e.oblige("lemma", fmt.Sprintf("lemma#%d.%d(before %q)", ci, k, c.Text), t, cl.Tags, cl.Src)
					e.assume(fmt.Sprintf("(=> %s %s)", e.reach[b], t))
				}
				// ghost assignments: all right-hand sides are evaluated in the state before the first of them
				var hs, ts []string
				for _, sc := range c.Sets {
					if !fv.pass.Active(sc.Tags) {
						continue
					}
					h, err := fv.w.heapGhost(sc.Ghost)
					if err != nil {
						e.errorf("sets: %v", err)
						continue
					}
					if !fv.ghostAllowed(h) {
						e.errorf("sets %s: the ghost is not in the function's `modifies ghost` list", sc.Ghost)
						continue
					}
					t, _, err := env.elab(sc.E)
					if err != nil {
						e.errorf("sets %s: %v", sc.Ghost, err)
						continue
					}
					hs, ts = append(hs, h), append(ts, t)
				}
				for k := range hs {
					e.setHeap(hs[k], ts[k])
				}
			}
			e.instr(in)
		}
		snap := map[string]int{}
		for k, v := range e.cur {
			snap[k] = v
		}
		e.exitHeap[b] = snap
		for _, s := range b.Succs {
			if fv.isHeader(s) {
				fv.checkInvariants(e, b, s, fv.edgeCond(e, b, s))
			}
		}
	}
}

// afterLoops: block b is an exit target of some loops: their `after` lemmas are
// proved here (in the state on entry to b) and then assumed, which splits long
// post-loop arguments into steps.
func (fv *FuncVerifier) afterLoops(e *Enc, b *ssa.BasicBlock) {
	if fv.spec == nil {
		return
	}
	for _, h := range fv.headers {
		ls := fv.loopSpec(h)
		if ls == nil || len(ls.After) == 0 || fv.loopBody[h][b] {
			continue
		}
		isExit := false
		for _, p := range b.Preds {
			if fv.loopBody[h][p] {
				isExit = true
			}
		}
		if !isExit {
			continue
		}
		nphi := 0
		for _, in := range b.Instrs {
			if _, ok := in.(*ssa.Phi); ok {
				nphi++
			} else {
				break
			}
		}
		env := fv.siteEnv(e, b, nphi)
		env.preVer = e.loopPre[h]
		save := e.curInstr
		if nphi < len(b.Instrs) {
			e.curInstr = b.Instrs[nphi]
		}
		for k, cl := range ls.After {
			if !fv.pass.Active(cl.Tags) {
				continue
			}
			t, _, err := env.elab(cl.E)
			if err != nil {
				e.errorf("after %s: %v", cl.Loc(), err)
				continue
			}
			e.oblige("after", fmt.Sprintf("after#%d/loop%d@%s", k, fv.headerOrd[h], blockLabel(b)), t, cl.Tags, cl.Src)
			e.assume(fmt.Sprintf("(=> %s %s)", e.reach[b], t))
		}
		e.curInstr = save
	}
}

// enterLoop: at a loop header (after merging the entry edges): havoc what the
// loop may modify and assume the invariants.
func (fv *FuncVerifier) enterLoop(e *Enc, h *ssa.BasicBlock) {
	w := fv.w
	reach := e.reach[h]
	allocPre := e.H(heapAlloc)
	lw := fv.loopWrites(e, h)
	pre := map[string]int{}
	for k, v := range e.cur {
		pre[k] = v
	}
	e.loopPre[h] = pre
	for _, hn := range lw {
		e.bump(hn)
	}
	if e.cur[heapAlloc] != pre[heapAlloc] {
		e.assume(fmt.Sprintf("(<= %s %s)", allocPre, e.H(heapAlloc)))
	}
	if fv.hasModSpec() {
		for _, hn := range lw {
			if hn == heapAlloc || !isRefHeap(w.heapSorts[hn]) {
				continue
			}
			e.assume(fmt.Sprintf("(forall ((r Ref)) (! (=> (and (isalloc %s r) (not %s)) (= (select %s r) (select %s r))) :pattern ((select %s r))))",
				e.H0(heapAlloc), fv.modPred(e, "r", hn), e.H(hn), e.H0(hn), e.H(hn)))
		}
		for _, hn := range lw {
			if strings.HasPrefix(hn, "G.") || (strings.HasPrefix(hn, "gh.") && !fv.ghostAllowed(hn)) {
				e.assume(fmt.Sprintf("(= %s %s)", e.H(hn), e.H0(hn)))
			}
		}
	}
	for _, in := range h.Instrs {
		p, ok := in.(*ssa.Phi)
		if !ok {
			break
		}
		if _, isT := p.Type().(*types.Tuple); isT {
			continue
		}
		e.wfValue(e.val(p), p.Type(), "")
	}
	for _, ai := range fv.autoInvs(h) {
		e.assume(fmt.Sprintf("(>= %s %s)", e.val(ai.phi), intTerm(ai.lo)))
	}
	for _, in := range h.Instrs {
		if nx, ok := in.(*ssa.Next); ok && !nx.IsString {
			rng := nx.Iter.(*ssa.Range)
			mt := rng.X.Type().Underlying().(*types.Map)
			e.assume(fmt.Sprintf("(forall ((k %s)) (=> (select %s k) (select (select %s %s) k)))", w.sortOf(mt.Key()), e.H(e.iterHeap(rng)), e.H(w.heapMapDom(mt)), e.val(rng.X)))
		}
	}
	if ls := fv.loopSpec(h); ls != nil {
		env := fv.invEnv(e, h, nil)
		for _, cl := range ls.Invs {
			if !fv.pass.Active(cl.Tags) {
				continue
			}
			t, _, err := env.elab(cl.E)
			if err != nil {
				e.errorf("invariant %s: %v", cl.Loc(), err)
				continue
			}
			e.assume(fmt.Sprintf("(=> %s %s)", reach, t))
		}
		if fv.cover {
			e.obls = append(e.obls, &Obligation{Name: fmt.Sprintf("cover/loop%d", fv.headerOrd[h]), Fn: funcKey(fv.fn), Kind: "cover", Prefix: len(e.asserts),
				Reach: reach, Goal: "false", Src: "vacuity guard: the loop header must be reachable with its invariants assumed (expected: NOT unsat)", enc: e, Block: h})
		}
		if ls.Decr != nil && fv.pass.Active(ls.Decr.Tags) {
			t, _, err := env.elab(ls.Decr.E)
			if err == nil {
				d := e.declare(q(fmt.Sprintf("dec0.loop%d", fv.headerOrd[h])), "Int")
				e.assume(fmt.Sprintf("(= %s %s)", d, t))
				e.dec0[h] = d
			}
		}
	}
}

func (fv *FuncVerifier) edgeCond(e *Enc, from, to *ssa.BasicBlock) string {
	last := from.Instrs[len(from.Instrs)-1]
	if iff, ok := last.(*ssa.If); ok {
		c := e.val(iff.Cond)
		if from.Succs[0] == to && from.Succs[1] == to {
			return "true"
		}
		if from.Succs[0] == to {
			return c
		}
		return "(not " + c + ")"
	}
	return "true"
}

func (w *World) sourceLine(loc string) string {
	// loc = dir/file.go:line relative to repo's parent-of-file; resolve by suffix
	i := strings.LastIndex(loc, ":")
	if i < 0 {
		return ""
	}
	var line int
	fmt.Sscanf(loc[i+1:], "%d", &line)
	var text string
	w.fset.Iterate(func(f *token.File) bool {
		if strings.HasSuffix(f.Name(), "/"+loc[:i]) || shortFile(f.Name()) == loc[:i] {
			data := readFileCached(f.Name())
			lines := strings.Split(data, "\n")
			if line >= 1 && line <= len(lines) {
				text = strings.TrimSpace(lines[line-1])
			}
			return false
		}
		return true
	})
	return text
}
