#!/usr/bin/env python3
"""Source of /verif/specs/props.json (per-property check configuration). Run to regenerate."""
import json, os
here = os.path.dirname(os.path.dirname(os.path.abspath(__file__)))
P = "(*bluemonday.Policy)."
T_SSA = "x/tools go/ssa builds SSA faithful to the Go spec; govc (VC generator: passive form, heap/frames model, contract elaboration) is correct (T1)"
T_SOLV = "unsat answers of z3 5.1.0 / z3 4.8.12 / cvc5 1.0.3 are correct (T2)"
T_HTML = "assumed contract of x/net/html (specs/lib/html.spec): Next() total and returns one of the seven token types; ErrorToken => Err() != nil; end-tag tokens carry no attributes; Token() returns the current token (T3)"
T_REPARSE = "re-tokenising the bytes written (html.Token.String / EscapeString) yields the tokens that were serialised (T4) - a property of x/net/html, not of /repo"
T_IO = "assumed contract of io.Writer / io.StringWriter (specs/lib/io.spec): a write reports failure by a non-nil error"
T_RE = "regexp.MatchString is a pure deterministic function of (pattern, input) (T6)"
T_STR = "strings/strconv/bytes functions are total, pure and do not write to their arguments (T7); ground facts about them are stated in specs/*.spec as axioms"
T_CB = "user callbacks (custom URL policies, style handlers, src rewriters) are pure, deterministic and do not touch the policy (T8)"
STRTRACK = ["regexp/syntax.Parse is the parser regexp.MustCompile uses; regexp.MatchString implements the language of the parsed pattern (T6)", "govc regexp->RegLan translator (regl.go)", "z3 5.1.0 / z3 4.8.12 / cvc5 1.0.3 string solvers"]
SAN = [P+"sanitize", P+"matchRegex", P+"allowNoAttrs", "bluemonday.normaliseElementName", P+"init"]
props = {
 "C01": {"title": "Only allowlisted elements reach the output",
   "runs": [{"fn": SAN, "beh": ""}], "timeout": 15, "min_obligations": 40,
   "trusted_base": [T_SSA, T_SOLV, T_HTML, T_REPARSE, T_IO, T_RE, T_STR],
   "not_decided": ["how a browser / HTML5 tree builder re-parses the emitted bytes in each container, incl. that CDATA/PI arrive as comment tokens (T3/T4)"],
   "level_text": "Proof for all policies and all token streams: every call of WriteString/Write on the destination inside sanitize carries the obligation emitC01 (the argument is one space under AddSpaceWhenStrippingTag, the serialisation of a text token, of a comment when comments are allowed, of a start/self-closing tag whose name is allowed by name or by pattern, or of an attribute-free end tag of such a name; never a doctype). The main loop is cut by an inductive invariant; matchRegex/allowNoAttrs are proved against functional postconditions (map iteration in arbitrary order)."},
 "C02": {"title": "Only allowlisted attributes with accepted values reach the output",
   "runs": [{"fn": SAN + [P+"sanitizeAttrs", "bluemonday.isDataAttribute"], "beh": ""}], "timeout": 20, "min_obligations": 200,
   "trusted_base": [T_SSA, T_SOLV, T_HTML, T_REPARSE, T_IO, T_RE, T_STR, T_CB,
      "stable-predicate meta-theorem (DESIGN §2.10): inside a function verified to modify nothing, a predicate that reads the heap only through its (entry-allocated) reference parameters has the same value in every state; it is therefore evaluated in the entry state",
      "the meaning of styleFiltered (what sanitizeStyles leaves of a style attribute) is C10's; here it is the marker 'went through sanitizeStyles and is non-empty'"],
   "not_decided": ["the finer shape of data-* names beyond matching ^data-.+ (no upper case, no ';', not data-xml*) is checked by isDataAttribute's regexps but not restated as a postcondition", "values of rewritten attributes (URL positions, rel, target, crossorigin, sandbox) are constrained by C03/C11/C12, here only that a rule exists for the key or the option forces it"],
   "level_text": "Proof for all policies, elements and attribute lists: sanitizeAttrs ensures every returned attribute is attrGood (admitted by data-*/style/element/element-pattern/global rule with its own value accepted by that rule's pattern, or a key the sanitiser is told to rewrite for which a rule exists, or an attribute it is told to add), carried through all eleven loops by quantified invariants; matchRegex ensures every rule in the merged table stems from a pattern that matches the element; sanitize passes exactly the table the policy resolves (apsFor), serialises exactly the list sanitizeAttrs returned, and never serialises an attribute-less tag unless allowNoAttrs holds."},
 "C03": {"title": "URL attributes carry only allowed schemes (or allowed relative URLs)",
   "runs": [{"fn": [P+"sanitizeAttrs", P+"validURL", "bluemonday.linkable", P+"init"], "beh": ""}], "timeout": 20, "min_obligations": 120,
   "trusted_base": [T_SSA, T_SOLV, T_RE, T_STR, T_CB,
      "assumed contract of net/url (specs/lib/url.spec): Parse is total and returns a fresh URL or an error; String() is a function of the URL's fields; the serialisation of a URL parses again (T5)",
      "stable-predicate meta-theorem (DESIGN §2.10)"],
   "not_decided": ["that net/url's idea of the scheme is the browser's (backslashes, C0 prefixes, tab/newline inside the scheme): a relation between two URL parsers, neither in /repo (T5)",
                   "control characters other than space/tab/newline: rejected by url.Parse, not by /repo (T5)"],
   "level_text": "Proof for all policies, elements and attribute lists: validURL ensures that an accepted value is the serialisation of a URL that parsed and whose scheme is on the allowlist and approved by a registered custom check, or matches a scheme pattern, or is relative with relative URLs allowed; sanitizeAttrs ensures, when requireParseableURLs is on, that every surviving attribute at one of the seventeen URL positions of the statement carries such a value, or the src rewriter's result when one is installed, through every later rewriting pass. The whitespace clause is split by case: proved for non-data: values, recorded as a known finding for data: values."},
 "C05": {"title": "script and style never survive unless AllowUnsafe(true)",
   "runs": [{"fn": SAN, "beh": ""}], "timeout": 15, "min_obligations": 40,
   "trusted_base": [T_SSA, T_SOLV, T_HTML, T_REPARSE, T_IO, T_RE, T_STR, "ground facts normalise(\"script\") == \"script\", normalise(\"style\") == \"style\" (axiom normalise-script; evaluated on the real normaliseElementName by the selftest)"],
   "not_decided": ["letter-case folding of tag names is the tokenizer's (T3: tag names arrive ASCII-lower-cased)"],
   "level_text": "Proof for all policies (including ones that name script/style, match them by pattern or un-skip their content) and all token streams: with allowUnsafe false, every write site carries emitC05: no start/end/self-closing tag named script or style is serialised, and a text token that directly follows a script/style start tag (its raw text, T3) is never written."},
 "C11": {"title": "Link hardening: nofollow, noreferrer, noopener and _blank are really present",
   "runs": [{"fn": [P+"sanitizeAttrs", "bluemonday.hasRelToken", P+"init"], "beh": ""}], "timeout": 20, "min_obligations": 150,
   "trusted_base": [T_SSA, T_SOLV, T_STR,
      "assumed contract of strings.Fields / strings.EqualFold (specs/lib/strings.spec): Fields returns the whitespace-separated fields, EqualFold is a pure function",
      "string axioms tok-add, tok-keep, tok-lit (specs/vocab.spec): appending \" tok\" to a token list adds tok and keeps the other tokens (T9; bounded-validated in the thorough tier)",
      "assumed contract of url.Parse: hasHost(raw) abstracts 'raw parses and has a non-empty host' (T5)"],
   "not_decided": ["'required tokens are not duplicated' (a statement about the string contents of rel)", "an <a target=_blank> without href gets no noopener: the antecedent includes the presence of an href, as the code's does"],
   "level_text": "Proof for all policies and attribute lists: hasRelToken is proved equal to token membership (hasTok, defined over strings.Fields and EqualFold); sanitizeAttrs ensures for a/area/link with an href that, under the (fully-qualified) nofollow / noreferrer options, a rel attribute exists and every rel attribute has the token; for a with a host-qualified href under AddTargetBlankToFullyQualifiedLinks that a target attribute exists and the first one is _blank; and that whenever an a with an href ends up with a _blank target every rel has noopener and one exists. The argument is carried by loop invariants on the three link-pass loops, lemmas at the loop exits and at three cut points, through the crossorigin and sandbox passes."},
 "C12": {"title": "Forced attributes: crossorigin=anonymous and iframe sandbox",
   "runs": [{"fn": [P+"sanitizeAttrs", P+"init"], "beh": ""}], "timeout": 20, "min_obligations": 100,
   "trusted_base": [T_SSA, T_SOLV, T_STR, "strings.Join(elems, sep) is a function of the element sequence and the separator; strings.Fields returns a fresh slice (T7)"],
   "not_decided": ["that splitting the emitted value at ASCII whitespace yields exactly the joined tokens (a fact about strings.Join/Fields and token syntax: the listed tokens contain no whitespace)"],
   "level_text": "Proof for all policies and attribute lists: sanitizeAttrs ensures that with requireCrossOriginAnonymous every audio/img/link/script/video result that has attributes contains a crossorigin attribute and every crossorigin attribute has the value anonymous; and that with requireSandboxOnIFrame every iframe result that has attributes contains a sandbox attribute and every sandbox value is empty or strings.Join(tokens, \" \") of pairwise distinct tokens each of which the policy lists (inner-loop invariant relating cleanVals and cleanValsSet)."},
 "C13": {"title": "A finished policy is deterministic and safe to share between goroutines",
   "implicit_modifies_nothing": True,
   "runs": [{"fn": [P+"Sanitize", P+"SanitizeBytes", P+"SanitizeReader", P+"SanitizeReaderToWriter", P+"sanitizeWithBuff", P+"sanitize", P+"sanitizeAttrs", P+"sanitizeStyles", P+"validURL", P+"matchRegex", P+"allowNoAttrs", P+"init",
                    "bluemonday.linkable", "bluemonday.stringInSlice", "bluemonday.isDataAttribute", "bluemonday.hasRelToken", "bluemonday.removeUnicode", "bluemonday.normaliseElementName", "(*bluemonday.asStringWriter).WriteString",
                    P+"AllowDataURIImages$1", "css.*", "!css.init"], "beh": ""}], "timeout": 15, "min_obligations": 400,
   "trusted_base": [T_SSA, T_SOLV, T_HTML, T_IO, T_RE, T_STR, T_CB,
      "Go memory model: goroutines none of which writes a location shared with another are data-race free and each behaves as if run alone (T11)",
      "regexp.Regexp methods are safe for concurrent use (documented; T6)"],
   "not_decided": ["actual goroutine interleavings and the race detector's view: this technique has no scheduler; what is proved is the premise (no write to any object that existed before the call, no write to a package-level variable) from which race freedom follows by T11",
                   "policies used before their first builder call (bare Policy{} literals): the sanitize family is verified under 'requires p.initialized'"],
   "level_text": "Proof of the read-only premise: every store, map update, delete and every call in the four entry points and everything they reach (sanitize, sanitizeAttrs, sanitizeStyles, validURL, matchRegex, allowNoAttrs, the helpers and all 190 css functions) carries a frame obligation: the written object was allocated during the same call (fresh literals, make, append chains, the local token and attribute variables) or the instruction is unreachable under p.initialized (init's ten stores); no package-level variable is written. Determinism: the functional postconditions of C01-C12 are proved with map iteration in arbitrary order, so no result can depend on it."},
 "C14": {"title": "Sanitising always returns promptly and never panics",
   "runs": [{"fn": ["*", "!css.init", "!bluemonday.init", "!sanitise_ugc.init", "!sanitise_html_email.init"], "beh": ""}], "string_track": ["C14"], "timeout": 15, "min_obligations": 1500,
   "trusted_base": [T_SSA, T_SOLV, T_HTML, T_IO, T_RE, T_STR, T_CB,
      "strings.Split with a non-empty separator returns at least one element; FindStringIndex returns nil or [a,b] with 0<=a<=b<=len(s); ParseDeclarations returns non-nil declarations on success; url.Parse returns a non-nil URL when err is nil (T5-T7)",
      "the serialisation of a URL that parsed parses again (reparses, T5): the only support of parsedURL != nil at parsedURL.String() in the src-rewriter branch"],
   "not_decided": ["running time bounded by a low-degree polynomial of the input length: cost recurrences need induction over sums that the solvers do not do; only termination measures of the recursive function and the safety (no panic) obligations are discharged",
                   "termination of the three hand-written loops (parseQuery, removeUnicode) is argued from string lengths that the opaque string model cannot express",
                   "stack overflow by deep recursion in css.recursiveCheck (depth is bounded by the number of space-separated parts of one CSS value)"],
   "level_text": "Proof, for every function of both packages and both command-line tools, of one obligation per instruction that can panic: index and slice bounds, nil-map writes, nil dereferences (method receivers are checked at every internal call site), calls through nil function values, division by zero, unchecked type assertions, explicit panics; plus the termination measure of css.recursiveCheck. Contracts of the builders carry the representation invariant wfp through every exported builder, so the obligations hold for every policy the API can produce."},
 "C16": {"title": "I/O failures are reported and the output stays a clean prefix",
   "runs": [{"fn": SAN + [P+"sanitizeWithBuff", P+"SanitizeReader", P+"SanitizeReaderToWriter", "(*bluemonday.asStringWriter).WriteString"], "beh": ""}], "timeout": 15, "min_obligations": 60,
   "trusted_base": [T_SSA, T_SOLV, T_HTML, T_IO],
   "not_decided": ["the prefix clause beyond 'no write after a failed write': that the sequence of write arguments does not depend on write outcomes (argued from def-use in DESIGN.md, not an SMT obligation)"],
   "level_text": "Proof: ghost flag outFailed is set by the contract of every Write/WriteString; each write site has the precondition !outFailed (no further writes after a failure), the loop invariant !outFailed is inductive, sanitize ensures outFailed ==> result != nil and result == nil ==> the tokenizer stopped at io.EOF; sanitizeWithBuff/SanitizeReader return a fresh empty buffer on any error."},
 "C18": {"title": "Default CSS value handlers accept only inert, whole values", "disabled": True,
   "runs": [], "string_track": ["C18A"], "timeout": 20, "min_obligations": 35,
   "trusted_base": STRTRACK, "assumptions": ["SMT-LIB strings range over code points <= U+2FFFF"], "not_decided": []},
 "C19": {"title": "Exported attribute matchers are anchored, closed-alphabet recognisers",
   "runs": [], "string_track": ["C19"], "timeout": 20, "min_obligations": 60,
   "trusted_base": STRTRACK,
   "assumptions": ["SMT-LIB strings range over code points <= U+2FFFF; Go strings with code points above that (or invalid UTF-8, which RE2 reads as U+FFFD) are outside the quantifier"],
   "not_decided": [],
   "level_text": "Proof, unbounded: for each of the eleven exported matchers the pattern literal is read from the package initialiser, parsed with regexp/syntax and translated to an SMT-LIB regular language; the obligation L(matcher) ⊆ L(documented form) is one str.in_re query that the solver must find unsat, for all strings of any length; documented examples are evaluated on the real regexp.",
   "technique": "contract-based deductive verification, string track: regexp literal -> RegLan, language-inclusion obligations discharged by z3/cvc5 string solvers"},
}
json.dump(props, open(os.path.join(here, 'specs', 'props.json'), 'w'), indent=1, ensure_ascii=False)
print(sorted(k for k in props if not props[k].get('disabled')))
