#!/bin/bash
# usage: harvest_seed.sh <worktree> <seed-name> <property> "<what it needs to manifest>"
# Confirms the seeded change independently (build, existing tests pass, demo fails with / passes without),
# then stores it under /verif/seeded/<seed-name>/ and runs the property's check against it.
set -u
export GOFLAGS=-mod=mod GOPROXY=off GOSUMDB=off GOTOOLCHAIN=local
WT=$1; NAME=$2; PROP=$3; NEEDS=$4
OUT=/verif/seeded/$NAME
mkdir -p $OUT
cd $WT || exit 1
git diff > $OUT/patch.diff
cp zz_seed_demo_test.go $OUT/demo_test.go.txt || exit 1
test -s $OUT/patch.diff || { echo "empty patch"; exit 1; }
LOG=""
go build ./... && LOG="$LOG build=ok" || LOG="$LOG build=FAIL"
mv zz_seed_demo_test.go /tmp/zz_demo_$NAME.go
go test -vet=off -count=1 ./... >/dev/null 2>&1 && LOG="$LOG existing_tests_with_change=pass" || LOG="$LOG existing_tests_with_change=FAIL"
mv /tmp/zz_demo_$NAME.go zz_seed_demo_test.go
go test -vet=off -count=3 -run '^TestSeedDemo$' . >/dev/null 2>&1 && LOG="$LOG demo_with_change=PASS(unexpected)" || LOG="$LOG demo_with_change=fails"
git diff > /tmp/harvest_cur.patch; git apply -R /tmp/harvest_cur.patch
go test -vet=off -count=3 -run '^TestSeedDemo$' . >/dev/null 2>&1 && LOG="$LOG demo_without_change=passes" || LOG="$LOG demo_without_change=FAILS(unexpected)"
git apply /tmp/harvest_cur.patch
echo "$LOG"
# run the check against a scratch copy of /repo with the patch applied
S=$(mktemp -d /tmp/seedrun.XXXXXX)
cp -r /repo/. $S/
(cd $S && git apply $OUT/patch.diff) || { echo "patch does not apply to /repo"; rm -rf $S; exit 1; }
RES=$(cd /verif && VERIF_REPO=$S VERIF_NO_EVIDENCE=1 ./check $PROP 2>&1 | grep "^VIOLATION\|^$PROP:" | head -5)
rm -rf $S
echo "$RES"
CAUGHT=false; echo "$RES" | grep -q "^VIOLATION" && CAUGHT=true
python3 - "$OUT" "$PROP" "$NEEDS" "$LOG" "$CAUGHT" "$RES" <<'PY'
import json,sys
out,prop,needs,log,caught,res=sys.argv[1:7]
json.dump({"property":prop,"breaks":prop,"needs_to_manifest":needs,"confirmed":log.strip(),"check_run":"VERIF_REPO=<scratch copy of /repo with patch.diff applied> ./check %s"%prop,
 "caught_by_check":caught=="true","check_output":res.split("\n")[:3],"expect":"VIOLATION"},open(out+"/meta.json","w"),indent=1)
PY
