#!/usr/bin/env python3
"""Regenerate MANIFEST.json from specs/props.json (claimed properties) and tools/manifest_meta.json."""
import json, os
here = os.path.dirname(os.path.dirname(os.path.abspath(__file__)))
props = [json.loads(l) for l in open(os.path.join(here, 'properties.jsonl'))]
spec = json.load(open(os.path.join(here, 'specs', 'props.json')))
meta = json.load(open(os.path.join(here, 'tools', 'manifest_meta.json')))
import subprocess
log = subprocess.run(['git', '-C', '/repo', 'log', '--format=%h %s'], capture_output=True, text=True).stdout.strip().split('\n')
meta['hooks']['source_commits'] = [l.split()[0] for l in reversed(log) if l.split(' ', 1)[1].startswith('verif:')]
checks, na = [], []
for p in props:
    pid = p['id']
    if pid in spec and not spec[pid].get('disabled'):
        s = spec[pid]
        checks.append({
            "property_id": pid,
            "quick_cmd": "./check %s --tier quick" % pid,
            "thorough_cmd": "./check %s --tier thorough" % pid,
            "evidence_file": "/verif/evidence/%s.json" % pid,
            "replay_cmd_template": "./check %s --replay {path}" % pid,
            "engine": "govc",
            "level_claimed": {"category": "proof", "text": s.get("level_text", ""), "design_ref": s.get("design_ref", "DESIGN.md §4/" + pid)},
            "level_note": "; ".join(s.get("trusted_base", []) + ["NOT DECIDED: " + x for x in s.get("not_decided", [])]),
            "technique": s.get("technique", "contract-based deductive verification: WP-style VCs generated from go/ssa of /repo + contracts, discharged by z3/cvc5"),
        })
    else:
        na.append({"property_id": pid, "reason": meta["not_applicable"].get(pid, "check not built yet (engine under construction)")})
m = {"version": 1,
     "setup_cmd": "cd /verif/govc && GOFLAGS=-mod=mod GOPROXY=off GOSUMDB=off GOTOOLCHAIN=local go build -o ../bin/govc .",
     "hooks": meta["hooks"], "engines": [dict(meta["engine"], serves_properties=[c["property_id"] for c in checks])],
     "checks": checks, "notes": meta["notes"], "not_applicable": na}
json.dump(m, open(os.path.join(here, 'MANIFEST.json'), 'w'), indent=1)
print("claimed:", [c["property_id"] for c in checks])
