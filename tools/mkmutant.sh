#!/bin/sh
# usage: mkmutant.sh <name> <property> <expected-obligation-substring> <python-edit-script-file>
# Creates /verif/selftest/mutants/<name>/{patch.diff,meta.json} from an edit applied to a scratch copy of /repo.
set -e
NAME=$1; PROP=$2; EXPECT=$3; EDIT=$4
D=$(mktemp -d /tmp/mut.XXXXXX)
cp -r /repo/. $D/
(cd $D && git add -A >/dev/null && git -c user.email=x@x -c user.name=x commit -qm base --allow-empty >/dev/null; python3 $EDIT && git diff > /tmp/$NAME.diff)
test -s /tmp/$NAME.diff || { echo "empty diff"; rm -rf $D; exit 1; }
(cd $D && go build ./... && go test -vet=off -count=1 . >/dev/null 2>&1 && echo "tests pass with mutant") || echo "WARNING: build/tests fail with mutant"
mkdir -p /verif/selftest/mutants/$NAME
mv /tmp/$NAME.diff /verif/selftest/mutants/$NAME/patch.diff
printf '{"property": "%s", "expect": "%s"}\n' "$PROP" "$EXPECT" > /verif/selftest/mutants/$NAME/meta.json
rm -rf $D
