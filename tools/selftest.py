#!/usr/bin/env python3
"""Must-fail corpus: apply each mutant (and each seeded change) to a scratch copy of /repo and
require the property's check to exit 1 naming the expected obligation. Harmless variants (meta
"expect": "PASS") must exit 0. Usage: selftest.py [name-substring ...]"""
import json, os, shutil, subprocess, sys, tempfile, glob
here = os.path.dirname(os.path.dirname(os.path.abspath(__file__)))
dirs = sorted(glob.glob(os.path.join(here, 'selftest', 'mutants', '*')) + glob.glob(os.path.join(here, 'seeded', '*')))
sel = sys.argv[1:]
bad = 0
for d in dirs:
    name = os.path.basename(d)
    if sel and not any(s in name for s in sel):
        continue
    meta = json.load(open(os.path.join(d, 'meta.json')))
    props = meta.get('properties') or [meta['property']]
    tmp = tempfile.mkdtemp(prefix='selftest.')
    try:
        subprocess.run(['cp', '-r', '/repo/.', tmp], check=True)
        r = subprocess.run(['git', 'apply', os.path.join(d, 'patch.diff')], cwd=tmp, capture_output=True, text=True)
        if r.returncode != 0:
            print('APPLY-FAIL', name, r.stderr.strip()[:200]); bad += 1; continue
        for prop in props:
            env = dict(os.environ, VERIF_REPO=tmp, VERIF_NO_EVIDENCE='1')
            r = subprocess.run([os.path.join(here, 'check'), prop], env=env, capture_output=True, text=True)
            viol = [l for l in r.stdout.split('\n') if l.startswith('VIOLATION')]
            exp = meta.get('expect', '')
            if exp == 'PASS':
                ok = r.returncode == 0
            else:
                ok = r.returncode == 1 and any(exp in l for l in viol)
            print('ok  ' if ok else 'MISS', name, prop, 'exit=%d' % r.returncode, (viol[0][:160] if viol else ''))
            if not ok:
                bad += 1
                for l in viol[:5]: print('     ', l[:200])
    finally:
        shutil.rmtree(tmp, ignore_errors=True)
sys.exit(1 if bad else 0)
